#![allow(dead_code)]
//! vcheck: generated-input checks for the yuvxyb properties C01..C20.
//!
//! usage: vcheck <ID> [--tier quick|thorough] [--seed N] [--evidence PATH] [--replay FILE]
//!               [--replays-dir DIR] [--known FILE] [--no-evidence]
//! exit 0: property held on everything explored; 1: VIOLATION printed; 2: infrastructure problem

use vcheck::engine::*;
use vcheck::props;
use serde_json::{json, Value};
use std::path::{Path, PathBuf};
use std::time::Instant;

fn arg_value(args: &[String], name: &str) -> Option<String> {
    args.iter().position(|a| a == name).and_then(|i| args.get(i + 1).cloned())
}

fn main() {
    let args: Vec<String> = std::env::args().collect();
    if args.len() < 2 {
        eprintln!("usage: vcheck <ID> [--tier quick|thorough] [--seed N] [--evidence PATH] [--replay FILE]");
        std::process::exit(2);
    }
    // quiet panic hook: panics inside the library are caught and classified by the checks
    if std::env::var("VERIF_VERBOSE").is_err() {
        std::panic::set_hook(Box::new(|_| {}));
    }
    // like an application, the checking process has a logger (statements inside the library's log calls only run
    // then); run_proptest silences it for a quarter of its cases
    install_logger();
    let id = args[1].clone();
    if id == "--worker" {
        std::process::exit(props::worker_main(&args[2..]));
    }
    let tier = match arg_value(&args, "--tier").or_else(|| std::env::var("VERIF_TIER").ok()).as_deref() {
        Some("thorough") => Tier::Thorough,
        _ => Tier::Quick,
    };
    let seed: u64 = arg_value(&args, "--seed")
        .or_else(|| std::env::var("VERIF_SEED").ok())
        .and_then(|s| s.trim().parse::<i64>().ok())
        .map(|v| v as u64)
        .unwrap_or(0);
    let threads = arg_value(&args, "--threads")
        .and_then(|s| s.parse().ok())
        .unwrap_or_else(|| std::thread::available_parallelism().map(|n| n.get()).unwrap_or(4));
    let verif_root = PathBuf::from(arg_value(&args, "--root").unwrap_or_else(|| "/verif".into()));
    let build = arg_value(&args, "--build").unwrap_or_else(|| "fast".into());
    let known_path = arg_value(&args, "--known").map(PathBuf::from).unwrap_or_else(|| verif_root.join("known_findings.json"));
    let known_open = load_known(&known_path, &id);
    let ctx = Ctx { id: id.clone(), tier, seed, threads, known_open, build: build.clone(), light: false };

    let Some(prop) = props::lookup(&id) else {
        eprintln!("unknown property {id}");
        std::process::exit(2);
    };

    // ---- C11 R10: worker of the order-permutation differential (fresh process, prints one hash per call)
    if let Some(pos) = args.iter().position(|a| a == "--order-worker") {
        let s: u64 = args.get(pos + 1).and_then(|x| x.parse().ok()).unwrap_or(0);
        let p: u8 = args.get(pos + 2).and_then(|x| x.parse().ok()).unwrap_or(0);
        std::process::exit(props::c11_order::worker_main(s, p));
    }

    // ---- C20 differential: dump the outputs of this build / compare two dumps
    if let Some(file) = arg_value(&args, "--dump") {
        let d = props::c20::dump(seed);
        std::fs::write(&file, serde_json::to_string(&d).unwrap()).expect("write dump");
        std::process::exit(0);
    }
    if let Some(pos) = args.iter().position(|a| a == "--diff") {
        let (fa, fb, na, nb) = (&args[pos + 1], &args[pos + 2], &args[pos + 3], &args[pos + 4]);
        let a: Value = serde_json::from_str(&std::fs::read_to_string(fa).expect("dump a")).expect("json a");
        let b: Value = serde_json::from_str(&std::fs::read_to_string(fb).expect("dump b")).expect("json b");
        let (report, viol) = props::c20::diff(&a, &b, na, nb);
        println!("DIFF-REPORT {report}");
        for v in &viol {
            println!("DIFF-VIOLATION {v}");
        }
        std::process::exit(if viol.is_empty() { 0 } else { 1 });
    }

    // ---- corpus modes (Miri engine): emit small cases from the property's own generators natively,
    //      replay them in a build without hooks under Miri, which turns UB into an error
    if let Some(file) = arg_value(&args, "--emit-corpus") {
        let n: usize = arg_value(&args, "--n").and_then(|s| s.parse().ok()).unwrap_or(200);
        let Some(gen) = prop.corpus else {
            eprintln!("{id} has no corpus generator");
            std::process::exit(2)
        };
        let cases = gen(seed, n);
        std::fs::write(&file, serde_json::to_string(&cases).unwrap()).expect("write corpus");
        eprintln!("[{id}] wrote {} corpus cases to {file}", cases.len());
        std::process::exit(0);
    }
    if let Some(file) = arg_value(&args, "--replay-corpus") {
        let txt = std::fs::read_to_string(&file).expect("read corpus");
        let cases: Vec<Value> = serde_json::from_str(&txt).expect("corpus json");
        let mut bad = 0;
        for (i, c) in cases.iter().enumerate() {
            // the driver attributes an interpreter error (UB) to the last announced case
            eprintln!("CORPUS-CASE {i}");
            if let Err(m) = replay_with_logging(c, &|v| (prop.replay)(v)) {
                println!("CORPUS-FAIL {i} {m}");
                bad += 1;
            }
        }
        println!("CORPUS-DONE {} cases, {} failed", cases.len(), bad);
        std::process::exit(if bad > 0 { 1 } else { 0 });
    }

    // ---- supervision: properties whose violations can kill the process run in a child
    if prop.isolated && std::env::var("VCHECK_CHILD").is_err() {
        std::process::exit(supervise(&args, &id, &verif_root, &build));
    }

    // ---- single replay mode
    if let Some(file) = arg_value(&args, "--replay") {
        let txt = std::fs::read_to_string(&file).unwrap_or_else(|e| {
            eprintln!("cannot read {file}: {e}");
            std::process::exit(2)
        });
        let v: Value = serde_json::from_str(&txt).unwrap_or_else(|e| {
            eprintln!("bad json {file}: {e}");
            std::process::exit(2)
        });
        if v.get("part").and_then(|p| p.as_str()) == Some("thread-history") {
            // re-run the property restricted to one generator thread, in a child of this process
            let only = v.get("only").and_then(|s| s.as_str()).unwrap_or("").to_string();
            let extra: Vec<String> = v.get("args").and_then(|a| a.as_array()).map(|a| a.iter().filter_map(|x| x.as_str().map(String::from)).collect()).unwrap_or_default();
            let exe = std::env::current_exe().expect("current_exe");
            let st = std::process::Command::new(&exe)
                .arg(&id)
                .args(&extra)
                .args(["--no-evidence", "--replays-dir", "/nonexistent"])
                .env("VCHECK_CHILD", "1")
                .env("VCHECK_ONLY", &only)
                .stdout(std::process::Stdio::null())
                .stderr(std::process::Stdio::null())
                .status();
            match st {
                Ok(s) if matches!(s.code(), Some(0)) => {
                    println!("replay {file}: the process survives the case list of generator thread {only}");
                    std::process::exit(0);
                }
                Ok(s) if { use std::os::unix::process::ExitStatusExt; s.signal() == Some(9) } => {
                    eprintln!("INFRASTRUCTURE: the child was killed (SIGKILL); not a verdict");
                    std::process::exit(2);
                }
                other => {
                    println!("replay {file}: the case list of generator thread {only} ends the process with {other:?}");
                    println!("VIOLATION property={id} replay={file}");
                    std::process::exit(1);
                }
            }
        }
        if v.get("part").and_then(|p| p.as_str()) == Some("sequence") {
            // a sequence of cases that killed a supervised child: run them in order on this thread; the verdict is
            // whether the process survives (the individual results were judged when the cases ran)
            for c in v.get("cases").and_then(|c| c.as_array()).cloned().unwrap_or_default() {
                let _ = replay_with_logging(&c, &|c| (prop.replay)(c));
            }
            println!("replay {file}: the process survives this sequence of cases");
            std::process::exit(0);
        }
        match replay_with_logging(&v, &|v| (prop.replay)(v)) {
            Ok(()) => {
                println!("replay {file}: property holds on this case");
                std::process::exit(0);
            }
            Err(m) => {
                println!("replay {file}: {m}");
                println!("VIOLATION property={id} replay={file}");
                std::process::exit(1);
            }
        }
    }

    let t0 = Instant::now();
    let mut st = Stats::new();
    let mut violations: Vec<Violation> = Vec::new();
    let mut printed: Vec<String> = Vec::new();

    // ---- replay tier: every saved reproduction of this property is re-executed first
    let replay_dir = arg_value(&args, "--replays-dir").map(PathBuf::from).unwrap_or_else(|| verif_root.join("replays").join(&id));
    let mut replayed = 0u64;
    if let Ok(rd) = std::fs::read_dir(&replay_dir) {
        let mut files: Vec<PathBuf> = rd.filter_map(|e| e.ok()).map(|e| e.path()).filter(|p| p.extension().map(|e| e == "json").unwrap_or(false)).collect();
        files.sort();
        for f in files {
            let Ok(txt) = std::fs::read_to_string(&f) else { continue };
            let Ok(v) = serde_json::from_str::<Value>(&txt) else { continue };
            // a replay file may be specific to a build configuration
            if let Some(b) = v.get("build").and_then(|b| b.as_str()) {
                if b != build {
                    continue;
                }
            }
            replayed += 1;
            if matches!(v.get("part").and_then(|p| p.as_str()), Some("sequence") | Some("thread-history")) {
                // a history that once killed the process: re-run it in a process of its own
                if let Some(how) = replay_in_child(&id, &build, &verif_root, &f) {
                    println!("saved reproduction fails again: {} : the process terminates abnormally ({how})", f.display());
                    println!("VIOLATION property={} replay={}", id, f.display());
                    printed.push(f.display().to_string());
                }
                continue;
            }
            if let Err(m) = replay_with_logging(&v, &|v| (prop.replay)(v)) {
                let sig = v.get("signature").and_then(|s| s.as_str()).unwrap_or("replay").to_string();
                if ctx.is_known(&sig) {
                    continue; // reported below as KNOWN-FINDING by the main run
                }
                println!("saved reproduction fails again: {} : {}", f.display(), m);
                println!("VIOLATION property={} replay={}", id, f.display());
                printed.push(f.display().to_string());
            }
        }
    }
    st.class("saved_replays_executed", replayed);

    // ---- main run
    violations.extend((prop.run)(&ctx, &mut st));

    // ---- report
    let mut new_violations = 0;
    let mut known_hits = 0;
    for v in &violations {
        if ctx.is_known(&v.signature) {
            let what = ctx.known_open.iter().find(|(s, _)| *s == v.signature).map(|(_, w)| w.clone()).unwrap_or_default();
            println!("KNOWN-FINDING: property={} {} [{}]", id, what, v.signature);
            known_hits += 1;
            continue;
        }
        new_violations += 1;
        let path = save_replay(&verif_root, &id, &build, v);
        println!("violation: {}", v.message);
        println!("VIOLATION property={} replay={}", id, path.display());
    }
    new_violations += printed.len();
    let wall = t0.elapsed().as_secs_f64();

    if !args.iter().any(|a| a == "--no-evidence") {
        let ev_path = arg_value(&args, "--evidence").map(PathBuf::from).unwrap_or_else(|| verif_root.join("evidence").join(format!("{id}.json")));
        write_evidence(&ev_path, &ctx, &st, prop.rule, prop.assumptions, wall, new_violations as i64, known_hits);
    }
    eprintln!(
        "[{}:{}:{}] evaluations={} comparisons={} distinct_nontrivial={} violations={} known={} wall={:.1}s",
        id,
        if ctx.quick() { "quick" } else { "thorough" },
        build,
        st.evaluations,
        st.comparisons,
        st.distinct_nontrivial(),
        new_violations,
        known_hits,
        wall
    );
    std::process::exit(if new_violations > 0 { 1 } else { 0 });
}

fn load_known(path: &Path, id: &str) -> Vec<(String, String)> {
    let Ok(txt) = std::fs::read_to_string(path) else { return vec![] };
    let Ok(v) = serde_json::from_str::<Value>(&txt) else { return vec![] };
    let mut out = vec![];
    if let Some(open) = v.get("open").and_then(|o| o.as_array()) {
        for e in open {
            if e.get("property").and_then(|p| p.as_str()) == Some(id) {
                if let (Some(s), Some(w)) = (e.get("signature").and_then(|s| s.as_str()), e.get("what").and_then(|s| s.as_str())) {
                    out.push((s.to_string(), w.to_string()));
                }
            }
        }
    }
    out
}

fn save_replay(root: &Path, id: &str, build: &str, v: &Violation) -> PathBuf {
    let dir = root.join("replays").join(id);
    let _ = std::fs::create_dir_all(&dir);
    let mut case = v.case.clone();
    if let Value::Object(m) = &mut case {
        m.insert("signature".into(), json!(v.signature));
        m.insert("message".into(), json!(v.message));
        if build != "fast" {
            m.insert("build".into(), json!(build));
        }
    }
    let body = serde_json::to_string_pretty(&case).unwrap();
    let path = dir.join(format!("new-{:016x}.json", hash_str(&body)));
    let _ = std::fs::write(&path, body);
    path
}

#[allow(clippy::too_many_arguments)]
fn write_evidence(path: &Path, ctx: &Ctx, st: &Stats, rule: &str, assumptions: &[&str], wall: f64, violations: i64, known: u64) {
    if let Some(p) = path.parent() {
        let _ = std::fs::create_dir_all(p);
    }
    let mut rule_s = rule.to_string();
    if st.nontrivial_saturated {
        rule_s.push_str(" [distinct counter saturated at its cap: count is a lower bound]");
    }
    let mut coverage = json!({
        "evaluations": st.evaluations,
        "distinct_nontrivial": st.distinct_nontrivial(),
        "rule": rule_s,
        "samples": st.samples,
        "elementary_comparisons": st.comparisons,
        "classes": st.classes,
        "maxima": st.maxima,
        "exhaustive": !st.exhaustive_parts.is_empty() && st.notes.iter().all(|n| !n.starts_with("partial:")) && st.exhaustive_parts.iter().any(|p| p.starts_with("ALL:")),
        "exhaustive_parts": st.exhaustive_parts,
        "notes": st.notes,
        "build": ctx.build,
        "known_findings_hit": known,
    });
    if st.samples.is_empty() {
        coverage["samples"] = json!(["(no sample recorded)"]);
    }
    let ev = json!({
        "property_id": ctx.id,
        "tier": if ctx.quick() { "quick" } else { "thorough" },
        "seed": ctx.seed as i64,
        "level": "exploration",
        "coverage": coverage,
        "assumptions": assumptions,
        "wall_s": (wall * 1000.0).round() / 1000.0,
        "violations": violations,
    });
    let _ = std::fs::write(path, serde_json::to_string_pretty(&ev).unwrap());
}

/// Run this same command line in a child process. Exit codes 0/1/2 of the child are passed
/// through (it printed its own report and wrote its own evidence). Any other termination (signal,
/// abort from std's ub_checks, stack overflow) is attributed to the cases journalled by the child:
/// each is re-executed alone in a fresh child, and those that kill it again are reported as
/// violations with the journalled case as the replay file.
/// Run `--replay file` in a child process with glibc's heap consistency checks switched on (so that heap corruption is
/// reported when the damaged block is freed instead of going unnoticed); Some(description) if the child does not exit 0.
fn replay_in_child(id: &str, build: &str, root: &Path, f: &Path) -> Option<String> {
    use std::os::unix::process::ExitStatusExt;
    let exe = std::env::current_exe().ok()?;
    let mut cmd = std::process::Command::new(&exe);
    cmd.args([id, "--build", build, "--root", &root.display().to_string(), "--replay", &f.display().to_string()])
        .env("VCHECK_CHILD", "1")
        .stdout(std::process::Stdio::null())
        .stderr(std::process::Stdio::piped());
    let dbg = "/lib/x86_64-linux-gnu/libc_malloc_debug.so.0";
    if Path::new(dbg).exists() {
        cmd.env("LD_PRELOAD", dbg).env("GLIBC_TUNABLES", "glibc.malloc.check=3").env("MALLOC_PERTURB_", "165");
    }
    let out = cmd.output().ok()?;
    let s = out.status;
    if matches!(s.code(), Some(0)) {
        return None;
    }
    // resource exhaustion is not a finding: killed from outside / by the OOM killer, or an allocation that failed
    let err = String::from_utf8_lossy(&out.stderr);
    if s.signal() == Some(9) || err.contains("memory allocation of") || err.contains("out of memory") {
        eprintln!("[{id}] a replay child ran out of memory or was killed ({s:?}); not counted");
        return None;
    }
    Some(format!("{s:?}"))
}

fn supervise(args: &[String], id: &str, root: &Path, build: &str) -> i32 {
    let exe = std::env::current_exe().expect("current_exe");
    let jdir = std::env::temp_dir().join(format!("vcheck-journal-{}-{}", id, std::process::id()));
    let _ = std::fs::remove_dir_all(&jdir);
    let _ = std::fs::create_dir_all(&jdir);
    let status = std::process::Command::new(&exe).args(&args[1..]).env("VCHECK_CHILD", "1").env("VCHECK_JOURNAL_DIR", &jdir).status();
    let code = match status {
        Ok(s) => s.code(),
        Err(e) => {
            eprintln!("cannot spawn child: {e}");
            let _ = std::fs::remove_dir_all(&jdir);
            return 2;
        }
    };
    if let Some(c) = code {
        if (0..=2).contains(&c) {
            let _ = std::fs::remove_dir_all(&jdir);
            return c;
        }
    }
    {
        use std::os::unix::process::ExitStatusExt;
        if status.as_ref().ok().and_then(|s| s.signal()) == Some(9) {
            eprintln!("INFRASTRUCTURE: [{id}:{build}] the supervised child was killed (SIGKILL: out of memory or stopped from outside); not a violation");
            let _ = std::fs::remove_dir_all(&jdir);
            return 2;
        }
    }
    eprintln!("[{id}:{build}] child terminated abnormally ({status:?}); re-executing the journalled cases");
    let mut found = 0;
    // does a replay file kill a fresh process?
    let dies = |f: &Path| -> Option<String> { replay_in_child(id, build, root, f) };
    let mut report = |mut case: Value, how: String| {
        if let Value::Object(m) = &mut case {
            m.insert("signature".into(), json!(format!("{id}:abnormal-termination")));
            m.insert("message".into(), json!(format!("executing this {} terminates the process abnormally in build {build} ({how}); the checking process contains no unsafe code of its own", if m.contains_key("cases") { "sequence of cases (on one thread, in this order)" } else { "case" })));
            m.insert("build".into(), json!(build));
        }
        let dir = root.join("replays").join(id);
        let _ = std::fs::create_dir_all(&dir);
        let body = serde_json::to_string_pretty(&case).unwrap();
        let path = dir.join(format!("new-{:016x}.json", hash_str(&body)));
        let _ = std::fs::write(&path, body);
        println!("violation: {} terminates the process abnormally in build {build} ({how})", if case.get("cases").is_some() { "a sequence of cases" } else { "a case" });
        println!("VIOLATION property={} replay={}", id, path.display());
    };
    if let Ok(rd) = std::fs::read_dir(&jdir) {
        let mut files: Vec<PathBuf> = rd.filter_map(|e| e.ok()).map(|e| e.path()).collect();
        files.sort();
        let journals: Vec<Vec<Value>> = files
            .iter()
            .filter_map(|f| std::fs::read_to_string(f).ok())
            .filter_map(|t| serde_json::from_str::<Value>(&t).ok())
            .map(|v| match v {
                Value::Array(a) => a,
                other => vec![other],
            })
            .collect();
        // the generator thread each journal belongs to (first element), if any
        let tags: Vec<Option<String>> = journals.iter().map(|j| j.first().and_then(|h| h.get("journal_of")).and_then(|t| t.as_str()).map(String::from)).collect();
        let journals: Vec<Vec<Value>> = journals.into_iter().map(|j| j.into_iter().filter(|c| c.get("journal_of").is_none()).collect()).collect();
        let tmp = jdir.join("try.json");
        // 1. the last case of each thread on its own
        for j in &journals {
            if let Some(last) = j.last() {
                let _ = std::fs::write(&tmp, last.to_string());
                if let Some(how) = dies(&tmp) {
                    report(last.clone(), how);
                    found += 1;
                }
            }
        }
        // 2. the last k cases of a thread, in order, on one thread of a fresh process (state left behind by earlier calls)
        if found == 0 {
            'outer: for j in &journals {
                for k in [2usize, 3, 4, 6, 8, 12, 16, JOURNAL_DEPTH, JOURNAL_DEPTH + 12, JOURNAL_DEPTH + 32, JOURNAL_DEPTH + JOURNAL_LARGE] {
                    if k > j.len() && k != 2 {
                        continue;
                    }
                    let seq = json!({"prop": id, "part": "sequence", "cases": j[j.len().saturating_sub(k)..].to_vec()});
                    let _ = std::fs::write(&tmp, seq.to_string());
                    if let Some(how) = dies(&tmp) {
                        report(seq, how);
                        found += 1;
                        break 'outer;
                    }
                }
            }
        }
    }
    // 3. the whole case list of one generator thread (a pure function of seed, property and thread tag), alone in a
    //    fresh process: state that took the entire history of that thread to build up
    if found == 0 {
        let mut tags: Vec<String> = Vec::new();
        if let Ok(rd) = std::fs::read_dir(&jdir) {
            for f in rd.filter_map(|e| e.ok()).map(|e| e.path()) {
                if let Some(t) = std::fs::read_to_string(&f).ok().and_then(|t| serde_json::from_str::<Value>(&t).ok()).and_then(|v| v.get(0).and_then(|h| h.get("journal_of")).and_then(|t| t.as_str()).map(String::from)) {
                    tags.push(t);
                }
            }
        }
        tags.sort();
        tags.dedup();
        let tmp = jdir.join("try-thread.json");
        for tag in tags {
            let case = json!({"prop": id, "part": "thread-history", "only": tag, "args": args[2..].to_vec()});
            let _ = std::fs::write(&tmp, case.to_string());
            if let Some(how) = replay_in_child(id, build, root, &tmp) {
                let mut case = case;
                if let Value::Object(m) = &mut case {
                    m.insert("signature".into(), json!(format!("{id}:abnormal-termination")));
                    m.insert("message".into(), json!(format!("running the generated cases of generator thread {tag} alone, in order, on one thread of a fresh process terminates it abnormally in build {build} ({how}); the checking process contains no unsafe code of its own")));
                    m.insert("build".into(), json!(build));
                }
                let dir = root.join("replays").join(id);
                let _ = std::fs::create_dir_all(&dir);
                let body = serde_json::to_string_pretty(&case).unwrap();
                let path = dir.join(format!("new-{:016x}.json", hash_str(&body)));
                let _ = std::fs::write(&path, body);
                println!("violation: the case list of generator thread {tag} terminates the process abnormally in build {build} ({how})");
                println!("VIOLATION property={} replay={}", id, path.display());
                found += 1;
                break;
            }
        }
    }
    let _ = std::fs::remove_dir_all(&jdir);
    if found > 0 {
        1
    } else {
        eprintln!("INCONCLUSIVE: abnormal termination did not reproduce from the journalled cases (reported as infrastructure, not as a violation)");
        2
    }
}
