//! Long single-thread call histories ("soak"), shared by several properties.
//!
//! Conversions are pure functions of their arguments, so the result of a call may not depend on *how many*
//! calls the thread (or the process) has made before. Counters that wrap (u8 / u16 epochs, generation tags of
//! memo tables, rate limiters) break that only at exact distances: the call 255, 256, 65535 or 65536 calls after
//! the one that left some state behind, or the very call at which the counter wraps.
//!
//! A history runs on a fresh thread and is a sequence of 66,700 conversions of 1x1 images. Two "sides" are
//! two (source type, conversion, config) choices that accept the same pixel data. The layout:
//!   * for each period P in {255, 256, 65535, 65536} (64 pixels each) and in {15, 16, 31, 32, ..., 1000, 1023, 1024, ...,
//!     10000, ..., 32767, 32768} (12 pixels each) a private set of test pixels is converted once under
//!     side A and exactly P calls later under side B, and never in between (so whatever the first visit left
//!     behind - in a table of any size and geometry - is still there, with a tag that is P calls old);
//!   * all other calls convert one of two filler pixels, alternating sides;
//!   * eight special pixels (all-zero, all-one, ... : values that look like "empty slot" defaults) are seen for
//!     the first time at the call indices 254..257 and 65534..65537 (where 8- and 16-bit counters wrap),
//!     rotated by the job's variant.
//! Every result must be bit-identical to the corresponding pixel of the conversion of the image made of all
//! distinct pixels, computed once per side on another fresh thread (the library is pointwise, C11/R2).

use crate::api::{cfg_from_json, cfg_json};
use crate::conv::*;
use crate::engine::*;
use serde_json::{json, Value};
use yuvxyb::{Pixel, Yuv, YuvConfig};

#[derive(Debug, Clone, Copy)]
pub struct Side {
    pub kind: Kind,
    pub edge: Edge,
    pub cfg: YuvConfig,
}

#[derive(Debug, Clone, Copy)]
pub struct Job {
    pub a: Side,
    pub b: Side,
    /// rotation of the special pixels over the wrap indices
    pub variant: usize,
}

pub const PERIODS: [usize; 4] = [255, 256, 65535, 65536];
const K: usize = 64;
const WRAPS: [usize; 8] = [254, 255, 256, 257, 65534, 65535, 65536, 65537];
/// further distances, probed with K2 pixels each: powers of two and their predecessors, round decimal numbers
/// (ring buffers, "every n-th call" housekeeping)
pub const MINOR_PERIODS: [usize; 25] = [15, 16, 31, 32, 63, 64, 100, 127, 128, 511, 512, 1000, 1023, 1024, 2047, 2048, 4095, 4096, 8191, 8192, 10000, 16383, 16384, 32767, 32768];
const K2: usize = 12;
/// pixel table: 0,1 fillers; 2..10 specials; then 4 x K test pixels of the main periods, then 25 x K2 of the minor ones
const N_PIX: usize = 10 + 4 * K + 25 * K2;

/// (pixel index, side) for every call
fn layout(variant: usize) -> Vec<(usize, usize)> {
    let len = 66_700;
    let mut seq: Vec<(usize, usize)> = (0..len).map(|j| (j % 2, (j / 2) % 2)).collect();
    let mut taken = vec![false; len];
    for w in WRAPS {
        taken[w] = true;
    }
    // first visits in blocks, placed greedily so that neither visit of a pixel falls on an occupied call index
    let mut cursor = 300usize;
    let mut place = |seq: &mut Vec<(usize, usize)>, taken: &mut Vec<bool>, px0: usize, k: usize, p: usize| {
        let mut base = cursor;
        while (0..k).any(|i| taken[base + i] || taken[base + i + p]) {
            base += 1;
        }
        for i in 0..k {
            seq[base + i] = (px0 + i, 0);
            seq[base + i + p] = (px0 + i, 1);
            taken[base + i] = true;
            taken[base + i + p] = true;
        }
        cursor = base + k;
    };
    for (pi, p) in PERIODS.iter().enumerate() {
        place(&mut seq, &mut taken, 10 + pi * K, K, *p);
    }
    for (pi, p) in MINOR_PERIODS.iter().enumerate() {
        place(&mut seq, &mut taken, 10 + 4 * K + pi * K2, K2, *p);
    }
    for (i, w) in WRAPS.iter().enumerate() {
        seq[*w] = (2 + (i + variant) % 8, (i + variant) % 2);
    }
    seq
}

fn edge_index(k: Kind, e: Edge) -> usize {
    edges_from(k).iter().position(|x| format!("{x:?}") == format!("{e:?}")).unwrap_or(0)
}

fn side_json(s: &Side) -> Value {
    json!({"kind": kind_name(s.kind), "edge": edge_index(s.kind, s.edge), "edge_name": edge_name(s.edge), "cfg": cfg_json(&s.cfg)})
}
fn side_from_json(v: &Value) -> Option<Side> {
    let kind = kind_from_name(v.get("kind")?.as_str()?)?;
    let edges = edges_from(kind);
    Some(Side { kind, edge: edges[v.get("edge")?.as_u64()? as usize % edges.len()], cfg: cfg_from_json(v.get("cfg")?)? })
}

/// the pixel table as floats in [0,1] (hue in [0,360) for HSL) ...
fn float_pixels(kind: Kind) -> Vec<[f32; 3]> {
    let sp: [[f32; 3]; 8] = [[0.0; 3], [1.0; 3], [0.5; 3], [0.0, 0.0, 1.0], [1.0, 0.0, 0.0], [0.0, 1.0, 0.0], [0.25; 3], [0.75, 0.5, 0.25]];
    (0..N_PIX)
        .map(|i| {
            let q = match i {
                0 => [0.3, 0.6, 0.1],
                1 => [0.7, 0.2, 0.4],
                2..=9 => sp[i - 2],
                _ => {
                    let f = |k: usize| ((k % 1021) as f32 + 0.5) / 1021.0;
                    [f(i * 3 + 1), f(i * 7 + 3), f(i * 13 + 5)]
                }
            };
            if kind == Kind::Hsl {
                [q[0] * 359.0, q[1], q[2]]
            } else {
                q
            }
        })
        .collect()
}
/// ... and as code triples within the depth
fn code_pixels(depth: u8) -> Vec<[u16; 3]> {
    let m = 1usize << depth;
    let (mx, h) = ((m - 1) as u16, (m / 2) as u16);
    let sp: [[u16; 3]; 8] = [[0; 3], [mx; 3], [h; 3], [0, 0, mx], [mx, 0, 0], [0, mx, 0], [h / 2; 3], [h, h / 2, mx / 3]];
    (0..N_PIX)
        .map(|i| match i {
            0 => [(m / 3) as u16, (m / 5) as u16, (m / 7 * 5) as u16],
            1 => [(m / 7 * 6) as u16, (m / 9 * 5) as u16, (m / 11 * 3) as u16],
            2..=9 => sp[i - 2],
            _ => [((i * 37 + 11) % m) as u16, ((i * 101 + 5) % m) as u16, ((i * 59 + 3) % m) as u16],
        })
        .collect()
}

fn yuv_img<T: Pixel>(codes: &[[u16; 3]], w: usize, c: YuvConfig) -> Option<Yuv<T>> {
    Yuv::<T>::new(crate::api::frame444::<T>(codes, w, 1, 0, 0), c).ok()
}

fn mk_img(s: &Side, floats: &[[f32; 3]], codes: &[[u16; 3]]) -> Option<Img> {
    Some(match s.kind {
        Kind::Yuv8 => Img::Yuv8(yuv_img::<u8>(codes, codes.len(), s.cfg)?),
        Kind::Yuv16 => Img::Yuv16(yuv_img::<u16>(codes, codes.len(), s.cfg)?),
        k => float_img(k, floats.to_vec(), floats.len(), 1, s.cfg.transfer_characteristics, s.cfg.color_primaries),
    })
}

/// pixel i of a one-row image as raw bits
fn pixel_bits(img: &Img, i: usize) -> [u32; 3] {
    match img {
        Img::Yuv8(y) => {
            let s = yuv_samples(y);
            [s[0].2[i] as u32, s[1].2[i] as u32, s[2].2[i] as u32]
        }
        Img::Yuv16(y) => {
            let s = yuv_samples(y);
            [s[0].2[i] as u32, s[1].2[i] as u32, s[2].2[i] as u32]
        }
        other => {
            let p = other.float_data().unwrap()[i];
            [p[0].to_bits(), p[1].to_bits(), p[2].to_bits()]
        }
    }
}
fn all_bits(img: &Img, n: usize) -> Vec<[u32; 3]> {
    match img {
        Img::Yuv8(y) => {
            let s = yuv_samples(y);
            (0..n).map(|i| [s[0].2[i] as u32, s[1].2[i] as u32, s[2].2[i] as u32]).collect()
        }
        Img::Yuv16(y) => {
            let s = yuv_samples(y);
            (0..n).map(|i| [s[0].2[i] as u32, s[1].2[i] as u32, s[2].2[i] as u32]).collect()
        }
        other => other.float_data().unwrap().iter().map(|p| [p[0].to_bits(), p[1].to_bits(), p[2].to_bits()]).collect(),
    }
}

pub fn job_json(prop: &str, j: &Job) -> Value {
    json!({"prop": prop, "part": "soak", "a": side_json(&j.a), "b": side_json(&j.b), "variant": j.variant})
}
pub fn job_from_json(v: &Value) -> Option<Job> {
    Some(Job { a: side_from_json(v.get("a")?)?, b: side_from_json(v.get("b")?)?, variant: v.get("variant").and_then(|x| x.as_u64()).unwrap_or(0) as usize })
}

/// run one history on the current thread (callers provide a fresh one); Ok(number of calls compared)
pub fn run_job(prop: &str, job: &Job) -> Result<u64, Violation> {
    let sides = [job.a, job.b];
    let fail = |sig: &str, msg: String| Violation { signature: format!("{prop}:soak:{sig}"), message: msg, case: job_json(prop, job) };
    let floats: Vec<Vec<[f32; 3]>> = sides.iter().map(|s| float_pixels(s.kind)).collect();
    let codes: Vec<Vec<[u16; 3]>> = sides.iter().map(|s| code_pixels(s.cfg.bit_depth.min(if s.kind == Kind::Yuv8 { 8 } else { 16 }))).collect();
    // expected: the image of all distinct pixels converted once per side on a fresh thread
    let mut expect: Vec<Option<Vec<[u32; 3]>>> = Vec::new();
    for (k, s) in sides.iter().enumerate() {
        let (s, f, c) = (*s, floats[k].clone(), codes[k].clone());
        let r = std::thread::spawn(move || {
            let img = mk_img(&s, &f, &c)?;
            let out = catch(|| apply(s.edge, &img, &Params { cfg: s.cfg })).ok()?.ok()?;
            Some(all_bits(&out, f.len()))
        })
        .join()
        .ok()
        .flatten();
        expect.push(r);
    }
    if expect.iter().any(|e| e.is_none()) {
        // an unsupported combination: nothing to compare (the error contract is C14's subject)
        return Ok(0);
    }
    let mut compared = 0u64;
    for (j, (vi, si)) in layout(job.variant).into_iter().enumerate() {
        let s = &sides[si];
        let img = mk_img(s, &floats[si][vi..vi + 1], &codes[si][vi..vi + 1]).ok_or_else(|| fail("construct", format!("call #{j}: the 1x1 source image was rejected")))?;
        let out = match catch(|| apply(s.edge, &img, &Params { cfg: s.cfg })) {
            Ok(Ok(o)) => o,
            Ok(Err(e)) => return Err(fail("error", format!("call #{j} ({}) fails with {e:?} although the same conversion of a whole image succeeds", edge_name(s.edge)))),
            Err(pn) => return Err(fail("panic", format!("call #{j} ({}) of a long single-thread history panicked: {pn}", edge_name(s.edge)))),
        };
        let got = pixel_bits(&out, 0);
        let want = expect[si].as_ref().unwrap()[vi];
        if got != want {
            let src = if matches!(s.kind, Kind::Yuv8 | Kind::Yuv16) { format!("{:?}", codes[si][vi]) } else { format!("{:?}", floats[si][vi]) };
            return Err(fail(
                "call-count-dependent",
                format!(
                    "call #{j} of a single-thread history of 1x1 conversions: {} of pixel {src} with config {} gives bits {:x?}, but the same pixel inside a whole image converts to {:x?}; the result depends on the calls made before (same pixel last converted exactly 255 / 256 / 65535 / 65536 calls earlier under another config, or first seen where a counter wraps)",
                    edge_name(s.edge),
                    cfg_json(&s.cfg),
                    got,
                    want
                ),
            ));
        }
        compared += 1;
    }
    Ok(compared)
}

/// run a list of histories, each on one thread
pub fn run(ctx: &Ctx, st: &mut Stats, prop: &'static str, jobs: Vec<Job>) -> Vec<Violation> {
    par_sweep(ctx, st, jobs.len() as u64, |lo, hi, st| {
        for j in lo..hi {
            let job = jobs[j as usize];
            // a fresh thread per history: counters start from their initial state
            let r = std::thread::scope(|sc| sc.spawn(|| run_job(prop, &job)).join());
            let r = match r {
                Ok(r) => r,
                Err(_) => Err(Violation { signature: format!("{prop}:soak:panic"), message: "a long single-thread history panicked outside the conversion".into(), case: job_json(prop, &job) }),
            };
            match r {
                Err(v) => return Some(v),
                Ok(n) => {
                    st.evaluations += 1;
                    st.comparisons += n;
                    if n > 0 {
                        st.nontrivial_by_construction += 1;
                    }
                    st.class("long_single_thread_histories", 1);
                    st.class("long_history_calls", n);
                }
            }
        }
        None
    })
}

pub fn replay(prop: &str, v: &Value) -> Result<(), String> {
    let job = job_from_json(v).ok_or("bad soak case")?;
    // the history must run on one thread from a defined state: a fresh thread
    let prop = prop.to_string();
    std::thread::spawn(move || run_job(&prop, &job).map(|_| ()).map_err(|v| v.message)).join().map_err(|_| "soak replay thread panicked".to_string())?
}

/// the two layout variants for a pair of sides (`_periods` kept for the callers' readability: every history covers all of PERIODS)
pub fn with_periods(a: Side, b: Side, _periods: &[usize]) -> Vec<Job> {
    (0..2).map(|variant| Job { a, b, variant }).collect()
}
