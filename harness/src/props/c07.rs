//! C07 No safe API call sequence reaches undefined behaviour.
//!
//! Detectors: (i) the `verif-hooks` assertions placed immediately before every unchecked operation
//! (an unwinding panic whose message starts with VERIF-HOOK); (ii) abnormal termination of the
//! supervised child process (std `ub_checks` in the *-chk builds, which also run without hooks in
//! the `nohooks-chk` configuration); (iii) the rejection clause, checked on the specification.

use super::c03::{lib_apply, Dir};
use super::hist::*;
use crate::conv::*;
use crate::engine::*;
use crate::frames::{frame_spec, FrameSpec};
use crate::gen::{pick_from, SUBSAMPLINGS};
use crate::oracle::{tc_name, SUP_TC};
use proptest::prelude::*;
use serde_json::{json, Value};
use yuvxyb::{Pixel, TransferCharacteristic as TC, Yuv};

#[derive(Debug, Clone)]
pub struct GeoCase {
    pub spec: FrameSpec,
    pub writer_ss: (u8, u8),
    pub writer_u8: bool,
    /// 0: (&Rgb,cfg) 1: (Rgb,cfg) 2: (LinearRgb,cfg) 3: (Xyb,cfg)
    pub writer_src: u8,
    pub pix_seed: u64,
}

#[derive(Debug, Clone)]
pub enum Case {
    Geo(GeoCase),
    Float(FloatCase),
}

impl GeoCase {
    fn to_json(&self) -> Value {
        json!({"prop":"C07","part":"geo","spec":self.spec.to_json(),"writer_ss":[self.writer_ss.0,self.writer_ss.1],
               "writer_u8":self.writer_u8,"writer_src":self.writer_src,"pix_seed":self.pix_seed.to_string()})
    }
    fn from_json(v: &Value) -> Option<GeoCase> {
        let ss = v.get("writer_ss")?.as_array()?;
        Some(GeoCase {
            spec: FrameSpec::from_json(v.get("spec")?)?,
            writer_ss: (ss.first()?.as_u64()? as u8, ss.get(1)?.as_u64()? as u8),
            writer_u8: v.get("writer_u8")?.as_bool()?,
            writer_src: v.get("writer_src")?.as_u64()? as u8,
            pix_seed: v.get("pix_seed")?.as_str()?.parse().ok()?,
        })
    }
}

pub fn case_json(c: &Case) -> Value {
    match c {
        Case::Geo(g) => g.to_json(),
        Case::Float(f) => f.to_json("C07"),
    }
}

pub fn strategy() -> BoxedStrategy<Case> {
    let geo = (frame_spec(supported_cfg(), true), pick_from(&SUBSAMPLINGS), any::<bool>(), 0u8..4, any::<u64>())
        .prop_map(|(spec, writer_ss, writer_u8, writer_src, pix_seed)| Case::Geo(GeoCase { spec, writer_ss, writer_u8, writer_src, pix_seed }));
    prop_oneof![2 => geo, 1 => float_strategy().prop_map(Case::Float)].boxed()
}

fn hook_site(msg: &str) -> String {
    // "VERIF-HOOK oob decode-u pos=.." / "VERIF-HOOK f2i exp2 value=.."
    let mut it = msg.split("VERIF-HOOK").nth(1).unwrap_or("").split_whitespace();
    format!("{}:{}", it.next().unwrap_or("?"), it.next().unwrap_or("?"))
}

fn run_geo<T: Pixel>(g: &GeoCase, st: &mut Stats) -> Result<(), Violation>
where
    Yuv<T>: IntoImg,
{
    let spec = &g.spec;
    let fail = |sig: String, msg: String| Violation { signature: sig, message: msg, case: g.to_json() };
    let (frame, _bad) = spec.build::<T>();
    let made = catch(|| Yuv::<T>::new(frame, spec.cfg));
    let (w, h) = (spec.planes[0].w, spec.planes[0].h);
    let mut executed_unchecked = false;
    let mut float_src: Option<Img> = None;
    match made {
        Err(p) => {
            if is_hook_panic(&p) {
                return Err(fail(format!("C07:{}", hook_site(&p)), format!("constructor: {p}")));
            }
            st.class("ordinary_panic_in_constructor", 1);
        }
        Ok(Err(_)) => {
            st.class("frame_rejected", 1);
            if spec.chroma_too_small() {
                st.class("rejected_chroma_too_small", 1);
            }
        }
        Ok(Ok(yuv)) => {
            if spec.chroma_too_small() {
                return Err(fail(
                    "C07:accepts-uncoverable-frame".into(),
                    format!("Yuv::new accepted a frame whose chroma planes cannot cover the luma plane at the declared subsampling: {}", spec.to_json()),
                ));
            }
            st.class("frame_accepted", 1);
            let img = yuv.into_img();
            for e in edges_from(img.kind()) {
                match catch(|| apply(e, &img, &Params { cfg: spec.cfg })) {
                    Err(p) if is_hook_panic(&p) => {
                        return Err(fail(format!("C07:{}", hook_site(&p)), format!("{e:?} on an accepted frame: {p}; spec {}", spec.to_json())));
                    }
                    Err(_) => st.class("ordinary_panic_in_reader", 1),
                    Ok(Ok(out)) => {
                        executed_unchecked = true;
                        if matches!(e, Edge::YuvToRgb { by_ref: true }) {
                            float_src = Some(out);
                        }
                    }
                    Ok(Err(_)) => st.class("reader_conversion_error", 1),
                }
            }
        }
    }
    // writers: encode an image of the luma size with a subsampling drawn independently of the size
    if w > 0 && h > 0 {
        let mut cfg2 = spec.cfg;
        cfg2.subsampling_x = g.writer_ss.0;
        cfg2.subsampling_y = g.writer_ss.1;
        let data = match &float_src {
            Some(Img::Rgb(r)) => r.data().to_vec(),
            _ => expand_floats(1, g.pix_seed, w * h),
        };
        let (kind, edge) = match g.writer_src % 4 {
            0 => (Kind::Rgb, Edge::RgbToYuv { by_ref: true, u8_out: g.writer_u8 }),
            1 => (Kind::Rgb, Edge::RgbToYuv { by_ref: false, u8_out: g.writer_u8 }),
            2 => (Kind::Lin, Edge::LinToYuv { u8_out: g.writer_u8 }),
            _ => (Kind::Xyb, Edge::XybToYuv { u8_out: g.writer_u8 }),
        };
        let src = float_img(kind, data, w, h, cfg2.transfer_characteristics, cfg2.color_primaries);
        let divisible = w % (1 << cfg2.subsampling_x) == 0 && h % (1 << cfg2.subsampling_y) == 0;
        match catch(|| apply(edge, &src, &Params { cfg: cfg2 })) {
            Err(p) if is_hook_panic(&p) => {
                return Err(fail(
                    format!("C07:{}", hook_site(&p)),
                    format!("{edge:?} of a {w}x{h} image with subsampling {:?}: {p}", g.writer_ss),
                ));
            }
            Err(_) => st.class(if divisible { "ordinary_panic_in_writer_divisible" } else { "clean_panic_in_writer_indivisible_size" }, 1),
            Ok(Ok(out)) => {
                executed_unchecked = true;
                // decode what was written: the produced frame must itself be safe to read
                for e in [Edge::YuvToRgb { by_ref: true }, Edge::YuvToXyb { by_ref: false }] {
                    if let Err(p) = catch(|| apply(e, &out, &Params { cfg: cfg2 })) {
                        if is_hook_panic(&p) {
                            return Err(fail(format!("C07:{}", hook_site(&p)), format!("{e:?} of a frame produced by {edge:?}: {p}")));
                        }
                    }
                }
                st.class("writer_ok", 1);
            }
            Ok(Err(_)) => st.class("writer_conversion_error", 1),
        }
        if !divisible {
            st.class("writer_size_not_multiple_of_subsampling", 1);
        }
    }
    if spec.planes.iter().any(|p| p.from_slice) {
        st.class("uses_from_slice", 1);
    }
    if spec.planes.iter().any(|p| p.xpad > 0 || p.ypad > 0) {
        st.class("padded_planes", 1);
    }
    let nontrivial = executed_unchecked && (spec.cfg.subsampling_x > 0 || spec.cfg.subsampling_y > 0 || g.writer_ss != (0, 0) || spec.planes.iter().any(|p| p.xpad > 0 || p.from_slice))
        || spec.chroma_too_small();
    if nontrivial {
        if !cfg!(miri) {
            st.nontrivial(&g.to_json().to_string());
        }
    }
    Ok(())
}

fn run_float(f: &FloatCase, st: &mut Stats) -> Result<(), Violation> {
    let px = f.pixels();
    let start = float_img(f.kind, px.clone(), f.w, f.h, f.cfg.transfer_characteristics, f.cfg.color_primaries);
    let rep = run_history(start, &f.cfg, &f.ops);
    for s in &rep.steps {
        if let StepResult::Panic(p) = &s.result {
            if is_hook_panic(p) {
                // minimise: find a single pixel that still triggers the hook on the same history
                let mut min = f.clone();
                for q in &px {
                    let one = FloatCase { kind: f.kind, w: 1 << f.cfg.subsampling_x, h: 1 << f.cfg.subsampling_y, cfg: f.cfg, data: Data::Explicit(vec![*q; (1usize << f.cfg.subsampling_x) * (1usize << f.cfg.subsampling_y)]), ops: f.ops.clone() };
                    let img = float_img(one.kind, one.pixels(), one.w, one.h, one.cfg.transfer_characteristics, one.cfg.color_primaries);
                    let r = run_history(img, &one.cfg, &one.ops);
                    if r.steps.iter().any(|s| matches!(&s.result, StepResult::Panic(p) if is_hook_panic(p))) {
                        min = one;
                        break;
                    }
                }
                return Err(Violation {
                    signature: format!("C07:{}", hook_site(p)),
                    message: format!("{:?} reached an unchecked operation with an invalid value: {p}; history {}", s.edge, steps_json(&rep.steps)),
                    case: min.to_json("C07"),
                });
            }
            st.class("ordinary_panic_in_float_history", 1);
        }
    }
    st.class("float_history_steps", rep.steps.len() as u64);
    let nonfinite = px.iter().any(|p| p.iter().any(|x| !x.is_finite()));
    if nonfinite {
        st.class("float_case_with_non_finite_value", 1);
        if !cfg!(miri) {
            st.nontrivial(&f.to_json("C07").to_string());
        }
    }
    Ok(())
}

pub fn check(c: &Case, st: &mut Stats) -> Result<(), Violation> {
    journal(|| case_json(c));
    st.evaluations += 1;
    let r = match c {
        Case::Geo(g) => {
            st.class("geometry_histories", 1);
            if g.spec.u8_storage {
                run_geo::<u8>(g, st)
            } else {
                run_geo::<u16>(g, st)
            }
        }
        Case::Float(f) => {
            st.class("float_histories", 1);
            run_float(f, st)
        }
    };
    st.sample(|| case_json(c));
    r
}

/// every f32 bit pattern (strided in quick) through every distinct curve direction, hooks armed
fn curve_sweep(ctx: &Ctx, st: &mut Stats) -> Vec<Violation> {
    let stride: u64 = ctx.pick(509, 1);
    let off = if stride > 1 { ctx.seed % stride } else { 0 };
    let count = ((1u64 << 32) - off + stride - 1) / stride;
    let block = 1u64 << 16;
    let nblocks = (count + block - 1) / block;
    let curves: Vec<TC> = SUP_TC.iter().copied().filter(|t| !crate::oracle::is_1886_alias(*t) && *t != TC::Linear).collect();
    let mut jobs = Vec::new();
    for t in &curves {
        for d in [Dir::ToLinear, Dir::ToGamma] {
            jobs.push((*t, d));
        }
    }
    let out = par_sweep(ctx, st, jobs.len() as u64 * nblocks, |lo, hi, st| {
        for idx in lo..hi {
            let (t, d) = jobs[(idx / nblocks) as usize];
            let b = idx % nblocks;
            let vals: Vec<f32> = (b * block..((b + 1) * block).min(count)).map(|i| f32::from_bits((off + i * stride) as u32)).collect();
            journal(|| json!({"prop":"C07","part":"curve","transfer":tc_name(t),"dir": if d == Dir::ToLinear {"to_linear"} else {"to_gamma"},"from_bits":off + b * block * stride,"stride":stride,"n":vals.len()}));
            if let Err(p) = catch(|| lib_apply(t, d, &vals)) {
                if is_hook_panic(&p) {
                    // find the single value
                    let bad = vals.iter().copied().find(|x| catch(|| lib_apply(t, d, &[*x])).is_err()).unwrap_or(vals[0]);
                    return Some(Violation {
                        signature: format!("C07:{}", hook_site(&p)),
                        message: format!("{} {:?} of x={:e} (bits {:08x}): {p}", tc_name(t), d, bad, bad.to_bits()),
                        case: json!({"prop":"C07","part":"curve","transfer":tc_name(t),"dir": if d == Dir::ToLinear {"to_linear"} else {"to_gamma"},"values":[f2j(bad)]}),
                    });
                }
                st.class("ordinary_panic_in_curve", 1);
            }
            st.evaluations += 1;
            st.comparisons += vals.len() as u64;
            st.nontrivial_by_construction += 1;
            st.class("curve_sweep_blocks", 1);
        }
        None
    });
    if stride == 1 {
        st.exhaustive_parts.push("all 2^32 f32 bit patterns through the 18 distinct non-identity curve directions".into());
    } else {
        st.notes.push(format!("curve sweep: every {stride}th f32 bit pattern (offset VERIF_SEED mod stride) through 18 curve directions"));
    }
    out
}

/// "Storage twins": a Yuv<u8> frame and a Yuv<u16> frame that carry the same config label (bit depth above 8 included:
/// the constructor accepts any depth for 8-bit storage), decoded one after the other on the same thread, in both
/// orders. The u16 frame has at least 2^depth pixels and uses its whole code range. Per-thread tables keyed by the
/// config but sized by the sample type would be indexed out of bounds by the second decode.
fn twins_once(depth: u8, full: bool, u8_first: bool, mi: usize) -> Result<(), String> {
    let c = crate::api::cfg(crate::oracle::STD_MC[mi % 7], TC::BT1886, yuvxyb::ColorPrimaries::BT709, depth, full, (0, 0));
    let max = (1u32 << depth) - 1;
    let n16 = ((1usize << depth).max(512)).div_ceil(64) * 64 + 64;
    let small: Vec<[u16; 3]> = (0..512usize).map(|i| [(i % 256) as u16, ((i * 7) % 256) as u16, ((i * 13 + 5) % 256) as u16]).collect();
    let big: Vec<[u16; 3]> = (0..n16).map(|i| [(i as u32 % (max + 1)) as u16, ((i as u32 * 7 + 3) % (max + 1)) as u16, (max - (i as u32 % (max + 1))) as u16]).collect();
    let d8 = || -> Result<(), String> {
        let y = Yuv::<u8>::new(crate::api::frame444::<u8>(&small, 32, 16, 0, 0), c).map_err(|e| format!("{e:?}"))?;
        let _ = yuvxyb::Rgb::try_from(&y);
        let _ = yuvxyb::LinearRgb::try_from(&y);
        Ok(())
    };
    let d16 = || -> Result<(), String> {
        let y = Yuv::<u16>::new(crate::api::frame444::<u16>(&big, 64, n16 / 64, 0, 0), c).map_err(|e| format!("{e:?}"))?;
        let _ = yuvxyb::Rgb::try_from(&y);
        let _ = yuvxyb::LinearRgb::try_from(&y);
        Ok(())
    };
    let r = catch(|| {
        if u8_first {
            let _ = d8();
            let _ = d16();
        } else {
            let _ = d16();
            let _ = d8();
            let _ = d16();
        }
    });
    match r {
        Err(p) if is_hook_panic(&p) => Err(p),
        _ => Ok(()),
    }
}

fn storage_twins(ctx: &Ctx, st: &mut Stats) -> Vec<Violation> {
    let mut jobs = Vec::new();
    for depth in 8u8..=16 {
        for full in [false, true] {
            for u8_first in [true, false] {
                jobs.push((depth, full, u8_first));
            }
        }
    }
    par_sweep(ctx, st, jobs.len() as u64, |lo, hi, st| {
        for j in lo..hi {
            let (depth, full, u8_first) = jobs[j as usize];
            let case = json!({"prop":"C07","part":"twins","depth":depth,"full":full,"u8_first":u8_first,"m":j});
            journal(|| case.clone());
            // a fresh thread per history: per-thread state starts empty
            let r = std::thread::scope(|sc| sc.spawn(|| twins_once(depth, full, u8_first, j as usize)).join());
            match r {
                Ok(Ok(())) => {}
                Ok(Err(m)) => return Some(Violation { signature: format!("C07:hook:{}", hook_site(&m)), message: format!("storage twins (Yuv<u8> and Yuv<u16> frames labelled {depth} bit, decoded one after the other on one thread): {m}"), case }),
                Err(_) => {}
            }
            st.evaluations += 1;
            st.nontrivial_by_construction += 1;
            st.class("storage_twin_histories", 1);
        }
        None
    })
}

pub fn run(ctx: &Ctx, st: &mut Stats) -> Vec<Violation> {
    // the checked profile is ~10x slower: a quarter of the cases there
    let scale = if cfg!(debug_assertions) { 4 } else { 1 };
    let mut v = run_proptest(ctx, st, "histories", ctx.cases(120_000, 2_000_000) / scale, strategy, check);
    if !v.is_empty() {
        return v;
    }
    v.extend(storage_twins(ctx, st));
    if !v.is_empty() {
        return v;
    }
    v.extend(curve_sweep(ctx, st));
    v
}

/// cases for the Miri engine: drawn from the same strategy, restricted to small frames, plus every
/// special value through every curve direction
pub fn corpus(seed: u64, n: usize) -> Vec<Value> {
    let strat = strategy();
    let mut out: Vec<Value> = Vec::new();
    let mut round = 0u64;
    while out.len() < n && round < 64 {
        for c in sample_strategy(&strat, mix64(seed ^ round), n) {
            let small = match &c {
                Case::Geo(g) => g.spec.planes.iter().all(|p| p.w <= 12 && p.h <= 12 && p.xpad <= 8 && p.ypad <= 8),
                Case::Float(f) => f.w * f.h <= 16,
            };
            if small && out.len() < n {
                out.push(case_json(&c));
            }
        }
        round += 1;
    }
    out.extend(super::c13::edge_corpus("C07"));
    let specials: Vec<Value> = SPECIAL_F32.iter().map(|b| f2j(f32::from_bits(*b))).collect();
    for t in SUP_TC {
        if crate::oracle::is_1886_alias(t) {
            continue;
        }
        for d in ["to_linear", "to_gamma"] {
            out.push(json!({"prop":"C07","part":"curve","transfer":tc_name(t),"dir":d,"values":specials}));
        }
    }
    out
}

pub fn replay(v: &Value) -> Result<(), String> {
    match v.get("part").and_then(|p| p.as_str()) {
        Some("geo") => {
            let g = GeoCase::from_json(v).ok_or("bad geo case")?;
            check(&Case::Geo(g), &mut Stats::new()).map_err(|v| v.message)
        }
        Some("float") => {
            let f = FloatCase::from_json(v).ok_or("bad float case")?;
            check(&Case::Float(f), &mut Stats::new()).map_err(|v| v.message)
        }
        Some("twins") => {
            let depth = v.get("depth").and_then(|x| x.as_u64()).ok_or("depth")? as u8;
            let full = v.get("full").and_then(|x| x.as_bool()).unwrap_or(false);
            let u8_first = v.get("u8_first").and_then(|x| x.as_bool()).unwrap_or(true);
            let m = v.get("m").and_then(|x| x.as_u64()).unwrap_or(0) as usize;
            std::thread::spawn(move || twins_once(depth, full, u8_first, m)).join().map_err(|_| "panicked".to_string())?
        }
        Some("curve") => {
            let t = crate::oracle::tc_from_name(v.get("transfer").and_then(|s| s.as_str()).ok_or("transfer")?).ok_or("transfer")?;
            let d = if v.get("dir").and_then(|s| s.as_str()) == Some("to_linear") { Dir::ToLinear } else { Dir::ToGamma };
            let vals: Vec<f32> = match v.get("values").and_then(|a| a.as_array()) {
                Some(a) => a.iter().filter_map(j2f).collect(),
                None => {
                    // a journalled block
                    let from = v.get("from_bits").and_then(|x| x.as_u64()).ok_or("from_bits")?;
                    let stride = v.get("stride").and_then(|x| x.as_u64()).unwrap_or(1);
                    let n = v.get("n").and_then(|x| x.as_u64()).unwrap_or(0);
                    (0..n).map(|i| f32::from_bits((from + i * stride) as u32)).collect()
                }
            };
            match catch(|| lib_apply(t, d, &vals)) {
                Err(p) if is_hook_panic(&p) => Err(p),
                _ => Ok(()),
            }
        }
        _ => Err("unknown case".into()),
    }
}

pub const RULE: &str = "cases = call histories generated by proptest: (geometry) a frame specification (luma 1..=12 and {31..65,130}; chroma plane sizes independent of luma: required, +-1, 0..=13, double; per-plane decimation 0..=2; padding 0..=17; Plane::new / Plane::from_slice; u8/u16; depth 8..16; 6 subsamplings) -> Yuv::new -> if accepted all six readers (Rgb/LinearRgb/Xyb, by reference and by value) -> one writer (&Rgb|Rgb|LinearRgb|Xyb, cfg2) -> Yuv<u8|u16> whose subsampling is drawn independently of the image size -> decode of the produced frame; (float) an image of any float type filled from special values (q/sNaN of both signs, +-inf, +-3e38, +-MAX, +-MIN_POSITIVE, subnormals, +-0), random bit patterns or in-range data, pushed through 1..4 conversions chosen over the whole conversion graph with a supported config; plus storage twins (a Yuv<u8> and a Yuv<u16> frame with the same config label, depth 8..16, the u16 frame with at least 2^depth pixels over its whole code range, decoded one after the other on one thread in both orders), plus a strided (quick) / complete (thorough) enumeration of all f32 bit patterns through every curve direction. Oracle: no panic from a verif hook placed before an unchecked operation, no abnormal termination of the supervised child (std ub_checks in the checked profile), and an uncoverable frame (chroma plane smaller than ceil(luma/2^ss)) is rejected. Ordinary panics are counted, not reported here (C13). non-trivial = a geometry history that executed an unchecked site on a subsampled, padded or from_slice frame or was rejected as uncoverable, or a float history containing a non-finite value; distinct = by hash of the history";
