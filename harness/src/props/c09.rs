//! C09 YUV->XYB->YUV returns the image within a small code budget.

use crate::api::{cfg, cfg_from_json, cfg_json};
use crate::conv::{yuv_frame, yuv_samples};
use crate::engine::*;
use crate::gen::{depth_storage, pick_from, std_matrix, sup_transfer, SUBSAMPLINGS};
use crate::oracle::{self, cp_name, mc_name, tc_name, STD_MC, SUP_CP, SUP_TC};
use proptest::prelude::*;
use serde_json::{json, Value};
use yuvxyb::{ColorPrimaries as CP, Pixel, Xyb, Yuv, YuvConfig};

#[derive(Debug, Clone)]
pub struct Case {
    pub cfg: YuvConfig,
    pub u8_storage: bool,
    /// size in chroma blocks
    pub bw: usize,
    pub bh: usize,
    pub colours: Colours,
    /// Plane::new paddings of the source frame
    pub pads: [(usize, usize); 3],
    /// a second image (own config) whose round trip is interleaved with this one: forward A, forward B, backward A,
    /// backward B - what a program comparing two clips does. Each must come back within its budget all the same.
    pub partner: Option<Box<Case>>,
}
#[derive(Debug, Clone)]
pub enum Colours {
    Seeded { stratum: u8, seed: u64 },
    /// one gamma-encoded RGB colour per chroma block
    Explicit(Vec<[f32; 3]>),
}

pub fn physical_primaries() -> Vec<CP> {
    SUP_CP.iter().copied().filter(|p| *p != CP::ST428).collect()
}

/// strata of gamma-encoded in-gamut colours: 0 uniform; 1 greys; 2 cube corners; 3 near black;
/// 4 near white; 5 saturated (one channel 0 or 1)
pub fn expand_colours(stratum: u8, seed: u64, n: usize) -> Vec<[f32; 3]> {
    let mut e = Expand(seed);
    (0..n)
        .map(|_| {
            let p: [f64; 3] = match stratum % 6 {
                0 => [e.unit(), e.unit(), e.unit()],
                1 => {
                    let g = e.unit();
                    [g, g, g]
                }
                2 => [e.below(2) as f64, e.below(2) as f64, e.below(2) as f64],
                3 => {
                    let s = 10f64.powf(e.range_f64(-4.0, -1.0));
                    [s * e.unit(), s * e.unit(), s * e.unit()]
                }
                4 => [1.0 - 0.05 * e.unit(), 1.0 - 0.05 * e.unit(), 1.0 - 0.05 * e.unit()],
                _ => {
                    let mut p = [e.unit(), e.unit(), e.unit()];
                    p[e.below(3) as usize] = e.below(2) as f64;
                    p
                }
            };
            [p[0] as f32, p[1] as f32, p[2] as f32]
        })
        .collect()
}

impl Case {
    pub fn block_colours(&self) -> Vec<[f32; 3]> {
        match &self.colours {
            Colours::Seeded { stratum, seed } => expand_colours(*stratum, *seed, self.bw * self.bh),
            Colours::Explicit(v) => v.clone(),
        }
    }
    fn json_with(&self, cols: &[[f32; 3]], bw: usize, bh: usize) -> Value {
        let mut v = json!({"prop":"C09","cfg":cfg_json(&self.cfg),"storage": if self.u8_storage {"u8"} else {"u16"},"bw":bw,"bh":bh,"pads":self.pads,
               "colours": cols.iter().map(|p| px2j(*p)).collect::<Vec<_>>()});
        if let Some(p) = &self.partner {
            let pc = p.block_colours();
            v["partner"] = p.json_with(&pc, p.bw, p.bh);
        }
        v
    }
    fn from_json(v: &Value) -> Option<Case> {
        let cols: Vec<[f32; 3]> = v.get("colours")?.as_array()?.iter().filter_map(j2px).collect();
        Some(Case {
            cfg: cfg_from_json(v.get("cfg")?)?,
            u8_storage: v.get("storage").and_then(|s| s.as_str()) == Some("u8"),
            bw: v.get("bw").and_then(|x| x.as_u64()).unwrap_or(1) as usize,
            bh: v.get("bh").and_then(|x| x.as_u64()).unwrap_or(1) as usize,
            colours: Colours::Explicit(cols),
            pads: v.get("pads").and_then(|p| serde_json::from_value(p.clone()).ok()).unwrap_or([(0, 0); 3]),
            partner: v.get("partner").and_then(Case::from_json).map(Box::new),
        })
    }
}

pub fn strategy() -> BoxedStrategy<Case> {
    (std_matrix(), sup_transfer(), pick_from(&[0usize, 1, 2, 3, 4, 5, 6, 7, 8, 9]), any::<bool>(), depth_storage(), pick_from(&SUBSAMPLINGS), 0u8..6, any::<u64>(), 1usize..=8, 1usize..=8)
        .prop_map(|(m, t, pi, full, (depth, u8s), ss, stratum, seed, bw, bh)| {
            // storage geometry is part of "every image": independent per-plane paddings, and now and then a
            // thin image wider than 1024 / 2048 pixels
            let mut e = Expand(seed ^ 0x0909);
            let mut pads = [(0usize, 0usize); 3];
            if e.below(2) == 0 {
                for p in pads.iter_mut() {
                    *p = (e.below(33) as usize, e.below(4) as usize);
                }
            }
            let (bw, bh) = match e.below(16) {
                0 => ((1025 + e.below(1200) as usize) >> ss.0, 1),
                1 => ((2049 + e.below(2100) as usize) >> ss.0, 1),
                _ => (bw, bh),
            };
            // one case in four is a pair of interleaved round trips; the partner's config differs in one to three fields
            let c = cfg(m, t, physical_primaries()[pi], depth, full, ss);
            let partner = if e.below(4) == 0 {
                let mut pc = c;
                let prims = physical_primaries();
                let mut changed = false;
                if e.below(2) == 0 {
                    pc.color_primaries = *e.pick(&prims);
                    changed = true;
                }
                if e.below(3) == 0 {
                    pc.transfer_characteristics = *e.pick(&SUP_TC);
                    changed = true;
                }
                if e.below(3) == 0 {
                    pc.matrix_coefficients = *e.pick(&STD_MC);
                    changed = true;
                }
                if e.below(4) == 0 {
                    pc.full_range = !pc.full_range;
                    changed = true;
                }
                if !changed {
                    pc.color_primaries = *e.pick(&prims);
                }
                let (pbw, pbh) = if e.below(2) == 0 { (bw.clamp(1, 8), bh) } else { (1 + e.below(4) as usize, 1 + e.below(4) as usize) };
                Some(Box::new(Case { cfg: pc, u8_storage: u8s, bw: pbw, bh: pbh, colours: Colours::Seeded { stratum: e.below(6) as u8, seed: e.next_u64() }, pads: [(0, 0); 3], partner: None }))
            } else {
                None
            };
            Case { cfg: c, u8_storage: u8s, bw: bw.max(1), bh, colours: Colours::Seeded { stratum, seed }, pads, partner }
        })
        .boxed()
}

/// the oracle quantiser: gamma RGB in [0,1]^3 -> nearest H.273 code triple
pub fn quantise(c: &YuvConfig, rgb: [f32; 3]) -> [u16; 3] {
    let n = c.bit_depth as u32;
    let y = oracle::encode_ypbpr(c.matrix_coefficients, [rgb[0] as f64, rgb[1] as f64, rgb[2] as f64]);
    [
        oracle::ideal_luma_code(y[0], n, c.full_range).round() as u16,
        oracle::ideal_chroma_code(y[1], n, c.full_range).round() as u16,
        oracle::ideal_chroma_code(y[2], n, c.full_range).round() as u16,
    ]
}

pub fn budget(depth: u8) -> f64 {
    (0.015 * ((1u64 << depth) - 1) as f64).max(1.0)
}

/// a round trip in flight: the source image and its XYB version
enum Fwd {
    U8(Yuv<u8>, Xyb),
    U16(Yuv<u16>, Xyb),
}

struct Prepared {
    cols: Vec<[f32; 3]>,
    planes: [Vec<u16>; 3],
    w: usize,
    h: usize,
}

/// in-gamut image: pixels constant within each chroma block, codes by the oracle quantiser
fn prepare(case: &Case) -> Prepared {
    let cols = case.block_colours();
    let c = &case.cfg;
    let (ssx, ssy) = (c.subsampling_x as usize, c.subsampling_y as usize);
    let (w, h) = (case.bw << ssx, case.bh << ssy);
    let codes: Vec<[u16; 3]> = cols.iter().map(|p| quantise(c, *p)).collect();
    let mut planes = [vec![0u16; w * h], vec![0u16; case.bw * case.bh], vec![0u16; case.bw * case.bh]];
    for by in 0..case.bh {
        for bx in 0..case.bw {
            let k = codes[by * case.bw + bx];
            planes[1][by * case.bw + bx] = k[1];
            planes[2][by * case.bw + bx] = k[2];
            for y in 0..(1 << ssy) {
                for x in 0..(1 << ssx) {
                    planes[0][((by << ssy) + y) * w + (bx << ssx) + x] = k[0];
                }
            }
        }
    }
    Prepared { cols, planes, w, h }
}

fn forward(case: &Case, p: &Prepared) -> Result<Fwd, String> {
    fn go<T: Pixel>(case: &Case, p: &Prepared) -> Result<(Yuv<T>, Xyb), String> {
        let c = &case.cfg;
        let frame = yuv_frame::<T>(p.w, p.h, (c.subsampling_x, c.subsampling_y), case.pads, &p.planes, 0);
        let yuv = Yuv::<T>::new(frame, *c).map_err(|e| format!("Yuv::new rejected a well-formed frame: {e:?}"))?;
        let xyb = Xyb::try_from(&yuv).map_err(|e| format!("YUV->XYB failed on a supported config: {e:?}"))?;
        if xyb.width() != p.w || xyb.height() != p.h {
            return Err(format!("XYB image is {}x{}", xyb.width(), xyb.height()));
        }
        Ok((yuv, xyb))
    }
    match catch(|| if case.u8_storage { go::<u8>(case, p).map(|(y, x)| Fwd::U8(y, x)) } else { go::<u16>(case, p).map(|(y, x)| Fwd::U16(y, x)) }) {
        Ok(r) => r,
        Err(pn) => Err(format!("panic: {pn}")),
    }
}

type Planes = Vec<(usize, usize, Vec<u16>)>;

fn backward(f: Fwd) -> Result<(Planes, Planes, YuvConfig, usize, usize), String> {
    fn go<T: Pixel>(yuv: Yuv<T>, xyb: Xyb) -> Result<(Planes, Planes, YuvConfig, usize, usize), String>
    where
        Yuv<T>: TryFrom<(Xyb, YuvConfig), Error = yuvxyb::ConversionError>,
    {
        let back = Yuv::<T>::try_from((xyb, yuv.config())).map_err(|e| format!("XYB->YUV failed on a supported config: {e:?}"))?;
        Ok((yuv_samples(&yuv), yuv_samples(&back), back.config(), back.width(), back.height()))
    }
    match catch(|| match f {
        Fwd::U8(y, x) => go(y, x),
        Fwd::U16(y, x) => go(y, x),
    }) {
        Ok(r) => r,
        Err(pn) => Err(format!("panic: {pn}")),
    }
}

/// judge one finished round trip
fn verify(case: &Case, top: &Case, p: &Prepared, res: Result<(Planes, Planes, YuvConfig, usize, usize), String>, st: &mut Stats) -> Result<(), Violation> {
    let c = &case.cfg;
    let cols = &p.cols;
    let (w, h) = (p.w, p.h);
    let (ssx, ssy) = (c.subsampling_x as usize, c.subsampling_y as usize);
    let sig = format!("C09:{}:{}:{}", mc_name(c.matrix_coefficients), tc_name(c.transfer_characteristics), cp_name(c.color_primaries));
    let interleaved = top.partner.is_some();
    // a failure of an interleaved pair is reported with the whole pair
    let whole = || -> Value {
        let tc = top.block_colours();
        top.json_with(&tc, top.bw, top.bh)
    };
    let fail = |msg: String| Violation { signature: sig.clone(), message: if interleaved { format!("{msg} [in a pair of interleaved round trips: forward A, forward B, backward A, backward B]") } else { msg }, case: whole() };
    let (orig, back, cfg2, w2, h2) = match res {
        Err(e) => return Err(fail(format!("{e}; cfg {}", cfg_json(c)))),
        Ok(r) => r,
    };
    st.evaluations += 1;
    if w2 != w || h2 != h || cfg2 != *c {
        return Err(fail(format!("width/height/config not preserved: {w2}x{h2} {}", cfg_json(&cfg2))));
    }
    let b = budget(c.bit_depth);
    for pl in 0..3 {
        if (orig[pl].0, orig[pl].1) != (back[pl].0, back[pl].1) {
            return Err(fail(format!("plane {pl} size changed")));
        }
        let pw = orig[pl].0;
        for (i, (a, z)) in orig[pl].2.iter().zip(&back[pl].2).enumerate() {
            let d = (*a as f64 - *z as f64).abs();
            if d > b {
                let (x, y) = (i % pw, i / pw);
                let (bx, by) = if pl == 0 { (x >> ssx, y >> ssy) } else { (x, y) };
                let col = cols[by * case.bw + bx];
                // does the colour fail on its own (1x1 block image, no padding, no partner)? otherwise report the whole case
                let single = Case { cfg: *c, u8_storage: case.u8_storage, bw: 1, bh: 1, colours: Colours::Explicit(vec![col]), pads: [(0, 0); 3], partner: None };
                let alone_fails = if interleaved || case.bw * case.bh > 1 || case.pads != [(0, 0); 3] { check(&single, &mut Stats::new()).is_err() } else { true };
                let msg = format!("plane {pl} sample ({x},{y}): {a} came back as {z} (|diff| {d} > budget {b:.2}); colour {:?}; image {}x{} blocks, paddings {:?}; cfg {}", col, case.bw, case.bh, case.pads, cfg_json(c));
                return Err(if alone_fails { Violation { signature: sig.clone(), message: msg, case: single.json_with(&[col], 1, 1) } } else { fail(msg) });
            }
            st.max("max_diff_over_budget", d / b);
        }
    }
    st.comparisons += (w * h + 2 * case.bw * case.bh) as u64;
    st.class(&format!("transfer_{}", tc_name(c.transfer_characteristics)), 1);
    st.class(&format!("primaries_{}", cp_name(c.color_primaries)), 1);
    st.class(&format!("ss_{}{}", ssx, ssy), 1);
    st.class(&format!("depth_{}", c.bit_depth), 1);
    if cols.iter().any(|p| p[0] != p[1] || p[1] != p[2]) {
        let bits: Vec<[u32; 3]> = cols.iter().map(|p| [p[0].to_bits(), p[1].to_bits(), p[2].to_bits()]).collect();
        st.nontrivial(&(cfg_json(c).to_string(), case.u8_storage, bits, interleaved));
    }
    Ok(())
}

pub fn check(case: &Case, st: &mut Stats) -> Result<(), Violation> {
    let pa = prepare(case);
    let fa = forward(case, &pa);
    match &case.partner {
        None => verify(case, case, &pa, fa.and_then(backward), st)?,
        Some(partner) => {
            let pb = prepare(partner);
            let fb = forward(partner, &pb);
            let ra = fa.and_then(backward);
            let rb = fb.and_then(backward);
            verify(case, case, &pa, ra, st)?;
            verify(partner, case, &pb, rb, st)?;
            st.class("interleaved_pairs", 1);
        }
    }
    st.sample(|| case.json_with(&pa.cols[..pa.cols.len().min(3)], pa.cols.len().min(3), 1));
    Ok(())
}

/// every supported (matrix, transfer, primaries) x range x depth x subsampling
fn all_configs(ctx: &Ctx, st: &mut Stats) -> Vec<Violation> {
    let prims = physical_primaries();
    let depths: Vec<u8> = if ctx.quick() { vec![8, 10] } else { (8..=16).collect() };
    let sss: Vec<(u8, u8)> = if ctx.quick() { vec![(0, 0), (1, 1)] } else { SUBSAMPLINGS.to_vec() };
    let mut jobs = Vec::new();
    for m in STD_MC {
        for t in SUP_TC {
            for p in &prims {
                for full in [false, true] {
                    for &d in &depths {
                        for &ss in &sss {
                            jobs.push(cfg(m, t, *p, d, full, ss));
                        }
                    }
                }
            }
        }
    }
    let (bw, bh) = if ctx.quick() { (8, 4) } else { (16, 16) };
    let seed0 = ctx.seed;
    let n = jobs.len();
    let out = par_sweep(ctx, st, n as u64, |lo, hi, st| {
        for j in lo..hi {
            let c = jobs[j as usize];
            let case = Case { cfg: c, u8_storage: c.bit_depth == 8 && j % 2 == 0, bw, bh, colours: Colours::Seeded { stratum: (j % 6) as u8, seed: mix64(seed0 ^ j) }, pads: [(0, 0), ((j % 7) as usize, 0), (0, (j % 3) as usize)], partner: None };
            let mut local = Stats::new();
            local.sample_budget = 0;
            if let Err(v) = check(&case, &mut local) {
                return Some(v);
            }
            st.evaluations += 1;
            st.comparisons += local.comparisons;
            st.nontrivial_by_construction += 1;
            st.class("enumerated_configs", 1);
            for (k, v) in local.maxima {
                st.max(&k, v);
            }
        }
        None
    });
    st.exhaustive_parts.push(format!("configuration space enumerated: {n} configs = 7 matrices x 14 curves x 10 physical primaries x 2 ranges x depths {:?} x subsamplings {:?} (pixels sampled)", depths, sss));
    out
}

/// every ordered pair of (primaries, primaries) and of (transfer, transfer) as an interleaved pair of round trips
fn interleaved_pairs(ctx: &Ctx, st: &mut Stats) -> Vec<Violation> {
    let prims = physical_primaries();
    let mut jobs: Vec<(YuvConfig, YuvConfig)> = Vec::new();
    for (i, p1) in prims.iter().enumerate() {
        for (k, p2) in prims.iter().enumerate() {
            for (d, full) in [(8u8, false), (10, true)] {
                let a = cfg(STD_MC[(i + k) % 7], SUP_TC[(i * 3 + k) % 14], *p1, d, full, (0, 0));
                let mut b = a;
                b.color_primaries = *p2;
                jobs.push((a, b));
            }
        }
    }
    for (i, t1) in SUP_TC.iter().enumerate() {
        for (k, t2) in SUP_TC.iter().enumerate() {
            let a = cfg(STD_MC[(i + k) % 7], *t1, prims[(i + 2 * k) % 10], 10, k % 2 == 0, (0, 0));
            let mut b = a;
            b.transfer_characteristics = *t2;
            jobs.push((a, b));
        }
    }
    let seed0 = ctx.seed;
    par_sweep(ctx, st, jobs.len() as u64, |lo, hi, st| {
        for j in lo..hi {
            let (a, b) = jobs[j as usize];
            let partner = Case { cfg: b, u8_storage: b.bit_depth == 8, bw: 3, bh: 2, colours: Colours::Seeded { stratum: ((j + 1) % 6) as u8, seed: mix64(seed0 ^ j ^ 0x9A12) }, pads: [(0, 0); 3], partner: None };
            let case = Case { cfg: a, u8_storage: a.bit_depth == 8, bw: 3, bh: 2, colours: Colours::Seeded { stratum: (j % 6) as u8, seed: mix64(seed0 ^ j ^ 0x9A11) }, pads: [(0, 0); 3], partner: Some(Box::new(partner)) };
            let mut local = Stats::new();
            local.sample_budget = 0;
            if let Err(v) = check(&case, &mut local) {
                return Some(v);
            }
            st.evaluations += 1;
            st.comparisons += local.comparisons;
            st.nontrivial_by_construction += 1;
            st.class("enumerated_interleaved_pairs", 1);
        }
        None
    })
}

pub fn run(ctx: &Ctx, st: &mut Stats) -> Vec<Violation> {
    let mut v = run_proptest(ctx, st, "random", ctx.cases(60_000, 3_000_000), strategy, check);
    if !v.is_empty() {
        return v;
    }
    v.extend(interleaved_pairs(ctx, st));
    if !v.is_empty() {
        return v;
    }
    v.extend(all_configs(ctx, st));
    if !v.is_empty() {
        return v;
    }
    v.extend(large_frames(ctx, st));
    v
}

/// real-size frames (see gen::LARGE_SIZES)
fn large_frames(ctx: &Ctx, st: &mut Stats) -> Vec<Violation> {
    let sizes: Vec<(usize, usize)> = crate::gen::large_sizes(ctx.quick());
    let prims = physical_primaries();
    let seed0 = ctx.seed;
    par_sweep(ctx, st, sizes.len() as u64, |lo, hi, st| {
        for j in lo..hi {
            let (w, h) = sizes[j as usize];
            for k in 0..4u64 {
                let ss = [(0u8, 0u8), (1, 1), (1, 0), (0, 0)][k as usize];
                let (depth, u8s) = [(8u8, true), (10, false), (16, false), (8, false)][((j + k) % 4) as usize];
                let c = cfg(STD_MC[((j + k) % 7) as usize], SUP_TC[((j * 3 + k) % 14) as usize], prims[((j + 2 * k) % 10) as usize], depth, k % 2 == 0, ss);
                let (bw, bh) = ((w >> ss.0).max(1), (h >> ss.1).max(1));
                let case = Case { cfg: c, u8_storage: u8s, bw, bh, colours: Colours::Seeded { stratum: (k % 6) as u8, seed: mix64(seed0 ^ (j << 8) ^ k) }, pads: [(0, 0), ((k % 2) as usize * 5, 0), (0, 0)], partner: None };
                let mut local = Stats::new();
                local.sample_budget = 0;
                if let Err(v) = check(&case, &mut local) {
                    return Some(v);
                }
                st.evaluations += 1;
                st.comparisons += local.comparisons;
                st.nontrivial_by_construction += 1;
                st.class("large_frames", 1);
            }
        }
        None
    })
}

pub fn replay(v: &Value) -> Result<(), String> {
    check(&Case::from_json(v).ok_or("bad C09 case")?, &mut Stats::new()).map_err(|v| v.message)
}

pub const RULE: &str = "cases = (matrix in 7 standard, transfer in 14 supported, primaries in the 10 physical ones (ST 428 excluded as the statement says), range, depth 8..16, storage, subsampling in 6, image of 1..8 x 1..8 chroma blocks (one case in eight: a single row wider than 1024 / 2048 pixels), independent per-plane paddings 0..32, of gamma-encoded in-gamut colours from 6 strata: uniform, greys, cube corners, near black, near white, saturated) generated by proptest (one case in four: a pair of images whose round trips are interleaved - forward A, forward B, backward A, backward B - the partner's config differing in one to three fields), plus an enumeration of the whole configuration space, every ordered pair of primaries as interleaved round trips and real-size frames (32768 .. 2 M pixels, rows up to 131080 wide, 4:4:4 / 4:2:0 / 4:2:2); the image is encoded to codes by the oracle quantiser (nearest H.273 code), pixels constant within each chroma block; path Yuv::new -> Xyb::try_from(&yuv) -> Yuv::try_from((xyb, yuv.config())); oracle: width, height, config equal, every sample within max(1, 0.015*(2^n-1)) codes; non-trivial = image with a non-grey colour; distinct = by hash of (config, colours)";
