//! C09 YUV->XYB->YUV returns the image within a small code budget.

use crate::api::{cfg, cfg_from_json, cfg_json};
use crate::conv::{yuv_frame, yuv_samples};
use crate::engine::*;
use crate::gen::{depth_storage, pick_from, std_matrix, sup_transfer, SUBSAMPLINGS};
use crate::oracle::{self, cp_name, mc_name, tc_name, STD_MC, SUP_CP, SUP_TC};
use proptest::prelude::*;
use serde_json::{json, Value};
use yuvxyb::{ColorPrimaries as CP, Pixel, Xyb, Yuv, YuvConfig};

#[derive(Debug, Clone)]
pub struct Case {
    pub cfg: YuvConfig,
    pub u8_storage: bool,
    /// size in chroma blocks
    pub bw: usize,
    pub bh: usize,
    pub colours: Colours,
    /// Plane::new paddings of the source frame
    pub pads: [(usize, usize); 3],
}
#[derive(Debug, Clone)]
pub enum Colours {
    Seeded { stratum: u8, seed: u64 },
    /// one gamma-encoded RGB colour per chroma block
    Explicit(Vec<[f32; 3]>),
}

pub fn physical_primaries() -> Vec<CP> {
    SUP_CP.iter().copied().filter(|p| *p != CP::ST428).collect()
}

/// strata of gamma-encoded in-gamut colours: 0 uniform; 1 greys; 2 cube corners; 3 near black;
/// 4 near white; 5 saturated (one channel 0 or 1)
pub fn expand_colours(stratum: u8, seed: u64, n: usize) -> Vec<[f32; 3]> {
    let mut e = Expand(seed);
    (0..n)
        .map(|_| {
            let p: [f64; 3] = match stratum % 6 {
                0 => [e.unit(), e.unit(), e.unit()],
                1 => {
                    let g = e.unit();
                    [g, g, g]
                }
                2 => [e.below(2) as f64, e.below(2) as f64, e.below(2) as f64],
                3 => {
                    let s = 10f64.powf(e.range_f64(-4.0, -1.0));
                    [s * e.unit(), s * e.unit(), s * e.unit()]
                }
                4 => [1.0 - 0.05 * e.unit(), 1.0 - 0.05 * e.unit(), 1.0 - 0.05 * e.unit()],
                _ => {
                    let mut p = [e.unit(), e.unit(), e.unit()];
                    p[e.below(3) as usize] = e.below(2) as f64;
                    p
                }
            };
            [p[0] as f32, p[1] as f32, p[2] as f32]
        })
        .collect()
}

impl Case {
    pub fn block_colours(&self) -> Vec<[f32; 3]> {
        match &self.colours {
            Colours::Seeded { stratum, seed } => expand_colours(*stratum, *seed, self.bw * self.bh),
            Colours::Explicit(v) => v.clone(),
        }
    }
    fn json_with(&self, cols: &[[f32; 3]], bw: usize, bh: usize) -> Value {
        json!({"prop":"C09","cfg":cfg_json(&self.cfg),"storage": if self.u8_storage {"u8"} else {"u16"},"bw":bw,"bh":bh,"pads":self.pads,
               "colours": cols.iter().map(|p| px2j(*p)).collect::<Vec<_>>()})
    }
}

pub fn strategy() -> BoxedStrategy<Case> {
    (std_matrix(), sup_transfer(), pick_from(&[0usize, 1, 2, 3, 4, 5, 6, 7, 8, 9]), any::<bool>(), depth_storage(), pick_from(&SUBSAMPLINGS), 0u8..6, any::<u64>(), 1usize..=8, 1usize..=8)
        .prop_map(|(m, t, pi, full, (depth, u8s), ss, stratum, seed, bw, bh)| {
            // storage geometry is part of "every image": independent per-plane paddings, and now and then a
            // thin image wider than 1024 / 2048 pixels
            let mut e = Expand(seed ^ 0x0909);
            let mut pads = [(0usize, 0usize); 3];
            if e.below(2) == 0 {
                for p in pads.iter_mut() {
                    *p = (e.below(33) as usize, e.below(4) as usize);
                }
            }
            let (bw, bh) = match e.below(16) {
                0 => ((1025 + e.below(1200) as usize) >> ss.0, 1),
                1 => ((2049 + e.below(2100) as usize) >> ss.0, 1),
                _ => (bw, bh),
            };
            Case { cfg: cfg(m, t, physical_primaries()[pi], depth, full, ss), u8_storage: u8s, bw: bw.max(1), bh, colours: Colours::Seeded { stratum, seed }, pads }
        })
        .boxed()
}

/// the oracle quantiser: gamma RGB in [0,1]^3 -> nearest H.273 code triple
pub fn quantise(c: &YuvConfig, rgb: [f32; 3]) -> [u16; 3] {
    let n = c.bit_depth as u32;
    let y = oracle::encode_ypbpr(c.matrix_coefficients, [rgb[0] as f64, rgb[1] as f64, rgb[2] as f64]);
    [
        oracle::ideal_luma_code(y[0], n, c.full_range).round() as u16,
        oracle::ideal_chroma_code(y[1], n, c.full_range).round() as u16,
        oracle::ideal_chroma_code(y[2], n, c.full_range).round() as u16,
    ]
}

pub fn budget(depth: u8) -> f64 {
    (0.015 * ((1u64 << depth) - 1) as f64).max(1.0)
}

type Planes = Vec<(usize, usize, Vec<u16>)>;

fn roundtrip<T: Pixel>(c: &YuvConfig, planes: &[Vec<u16>; 3], w: usize, h: usize, pads: [(usize, usize); 3]) -> Result<(Planes, Planes, YuvConfig, usize, usize), String> {
    let frame = yuv_frame::<T>(w, h, (c.subsampling_x, c.subsampling_y), pads, planes, 0);
    let yuv = Yuv::<T>::new(frame, *c).map_err(|e| format!("Yuv::new rejected a well-formed frame: {e:?}"))?;
    let xyb = Xyb::try_from(&yuv).map_err(|e| format!("YUV->XYB failed on a supported config: {e:?}"))?;
    if xyb.width() != w || xyb.height() != h {
        return Err(format!("XYB image is {}x{}", xyb.width(), xyb.height()));
    }
    let back = Yuv::<T>::try_from((xyb, yuv.config())).map_err(|e| format!("XYB->YUV failed on a supported config: {e:?}"))?;
    Ok((yuv_samples(&yuv), yuv_samples(&back), back.config(), back.width(), back.height()))
}

pub fn check(case: &Case, st: &mut Stats) -> Result<(), Violation> {
    let cols = case.block_colours();
    let c = &case.cfg;
    let (ssx, ssy) = (c.subsampling_x as usize, c.subsampling_y as usize);
    let (w, h) = (case.bw << ssx, case.bh << ssy);
    let sig = format!("C09:{}:{}:{}", mc_name(c.matrix_coefficients), tc_name(c.transfer_characteristics), cp_name(c.color_primaries));
    let fail = |msg: String, cols: &[[f32; 3]], bw: usize, bh: usize| Violation { signature: sig.clone(), message: msg, case: case.json_with(cols, bw, bh) };
    // in-gamut image: pixels constant within each chroma block, codes by the oracle quantiser
    let codes: Vec<[u16; 3]> = cols.iter().map(|p| quantise(c, *p)).collect();
    let mut planes = [vec![0u16; w * h], vec![0u16; case.bw * case.bh], vec![0u16; case.bw * case.bh]];
    for by in 0..case.bh {
        for bx in 0..case.bw {
            let k = codes[by * case.bw + bx];
            planes[1][by * case.bw + bx] = k[1];
            planes[2][by * case.bw + bx] = k[2];
            for y in 0..(1 << ssy) {
                for x in 0..(1 << ssx) {
                    planes[0][((by << ssy) + y) * w + (bx << ssx) + x] = k[0];
                }
            }
        }
    }
    let res = catch(|| if case.u8_storage { roundtrip::<u8>(c, &planes, w, h, case.pads) } else { roundtrip::<u16>(c, &planes, w, h, case.pads) });
    let (orig, back, cfg2, w2, h2) = match res {
        Err(p) => return Err(fail(format!("panic: {p}; cfg {}", cfg_json(c)), &cols, case.bw, case.bh)),
        Ok(Err(e)) => return Err(fail(format!("{e}; cfg {}", cfg_json(c)), &cols, case.bw, case.bh)),
        Ok(Ok(r)) => r,
    };
    st.evaluations += 1;
    if w2 != w || h2 != h || cfg2 != *c {
        return Err(fail(format!("width/height/config not preserved: {w2}x{h2} {}", cfg_json(&cfg2)), &cols, case.bw, case.bh));
    }
    let b = budget(c.bit_depth);
    for pl in 0..3 {
        if (orig[pl].0, orig[pl].1) != (back[pl].0, back[pl].1) {
            return Err(fail(format!("plane {pl} size changed"), &cols, case.bw, case.bh));
        }
        let pw = orig[pl].0;
        for (i, (a, z)) in orig[pl].2.iter().zip(&back[pl].2).enumerate() {
            let d = (*a as f64 - *z as f64).abs();
            if d > b {
                let (x, y) = (i % pw, i / pw);
                let (bx, by) = if pl == 0 { (x >> ssx, y >> ssy) } else { (x, y) };
                let col = cols[by * case.bw + bx];
                // does the colour fail on its own (1x1 block image, no padding)? otherwise report the whole image
                let single = Case { cfg: *c, u8_storage: case.u8_storage, bw: 1, bh: 1, colours: Colours::Explicit(vec![col]), pads: [(0, 0); 3] };
                let alone_fails = if case.bw * case.bh > 1 || case.pads != [(0, 0); 3] { check(&single, &mut Stats::new()).is_err() } else { true };
                let msg = format!("plane {pl} sample ({x},{y}): {a} came back as {z} (|diff| {d} > budget {b:.2}); colour {:?}; image {}x{} blocks, paddings {:?}; cfg {}", col, case.bw, case.bh, case.pads, cfg_json(c));
                return Err(if alone_fails { Violation { signature: sig.clone(), message: msg, case: single.json_with(&[col], 1, 1) } } else { fail(msg, &cols, case.bw, case.bh) });
            }
            st.max("max_diff_over_budget", d / b);
        }
    }
    st.comparisons += (w * h + 2 * case.bw * case.bh) as u64;
    st.class(&format!("transfer_{}", tc_name(c.transfer_characteristics)), 1);
    st.class(&format!("primaries_{}", cp_name(c.color_primaries)), 1);
    st.class(&format!("ss_{}{}", ssx, ssy), 1);
    st.class(&format!("depth_{}", c.bit_depth), 1);
    if cols.iter().any(|p| p[0] != p[1] || p[1] != p[2]) {
        let bits: Vec<[u32; 3]> = cols.iter().map(|p| [p[0].to_bits(), p[1].to_bits(), p[2].to_bits()]).collect();
        st.nontrivial(&(cfg_json(c).to_string(), case.u8_storage, bits));
    }
    st.sample(|| case.json_with(&cols[..cols.len().min(3)], cols.len().min(3), 1));
    Ok(())
}

/// every supported (matrix, transfer, primaries) x range x depth x subsampling
fn all_configs(ctx: &Ctx, st: &mut Stats) -> Vec<Violation> {
    let prims = physical_primaries();
    let depths: Vec<u8> = if ctx.quick() { vec![8, 10] } else { (8..=16).collect() };
    let sss: Vec<(u8, u8)> = if ctx.quick() { vec![(0, 0), (1, 1)] } else { SUBSAMPLINGS.to_vec() };
    let mut jobs = Vec::new();
    for m in STD_MC {
        for t in SUP_TC {
            for p in &prims {
                for full in [false, true] {
                    for &d in &depths {
                        for &ss in &sss {
                            jobs.push(cfg(m, t, *p, d, full, ss));
                        }
                    }
                }
            }
        }
    }
    let (bw, bh) = if ctx.quick() { (8, 4) } else { (16, 16) };
    let seed0 = ctx.seed;
    let n = jobs.len();
    let out = par_sweep(ctx, st, n as u64, |lo, hi, st| {
        for j in lo..hi {
            let c = jobs[j as usize];
            let case = Case { cfg: c, u8_storage: c.bit_depth == 8 && j % 2 == 0, bw, bh, colours: Colours::Seeded { stratum: (j % 6) as u8, seed: mix64(seed0 ^ j) }, pads: [(0, 0), ((j % 7) as usize, 0), (0, (j % 3) as usize)] };
            let mut local = Stats::new();
            local.sample_budget = 0;
            if let Err(v) = check(&case, &mut local) {
                return Some(v);
            }
            st.evaluations += 1;
            st.comparisons += local.comparisons;
            st.nontrivial_by_construction += 1;
            st.class("enumerated_configs", 1);
            for (k, v) in local.maxima {
                st.max(&k, v);
            }
        }
        None
    });
    st.exhaustive_parts.push(format!("configuration space enumerated: {n} configs = 7 matrices x 14 curves x 10 physical primaries x 2 ranges x depths {:?} x subsamplings {:?} (pixels sampled)", depths, sss));
    out
}

pub fn run(ctx: &Ctx, st: &mut Stats) -> Vec<Violation> {
    let mut v = run_proptest(ctx, st, "random", ctx.cases(60_000, 3_000_000), strategy, check);
    if !v.is_empty() {
        return v;
    }
    v.extend(all_configs(ctx, st));
    if !v.is_empty() {
        return v;
    }
    v.extend(large_frames(ctx, st));
    v
}

/// real-size frames (see gen::LARGE_SIZES)
fn large_frames(ctx: &Ctx, st: &mut Stats) -> Vec<Violation> {
    let sizes: Vec<(usize, usize)> = if ctx.quick() { crate::gen::LARGE_SIZES[..8].to_vec() } else { crate::gen::LARGE_SIZES.to_vec() };
    let prims = physical_primaries();
    let seed0 = ctx.seed;
    par_sweep(ctx, st, sizes.len() as u64, |lo, hi, st| {
        for j in lo..hi {
            let (w, h) = sizes[j as usize];
            for k in 0..4u64 {
                let ss = [(0u8, 0u8), (1, 1), (1, 0), (0, 0)][k as usize];
                let (depth, u8s) = [(8u8, true), (10, false), (16, false), (8, false)][((j + k) % 4) as usize];
                let c = cfg(STD_MC[((j + k) % 7) as usize], SUP_TC[((j * 3 + k) % 14) as usize], prims[((j + 2 * k) % 10) as usize], depth, k % 2 == 0, ss);
                let (bw, bh) = ((w >> ss.0).max(1), (h >> ss.1).max(1));
                let case = Case { cfg: c, u8_storage: u8s, bw, bh, colours: Colours::Seeded { stratum: (k % 6) as u8, seed: mix64(seed0 ^ (j << 8) ^ k) }, pads: [(0, 0), ((k % 2) as usize * 5, 0), (0, 0)] };
                let mut local = Stats::new();
                local.sample_budget = 0;
                if let Err(v) = check(&case, &mut local) {
                    return Some(v);
                }
                st.evaluations += 1;
                st.comparisons += local.comparisons;
                st.nontrivial_by_construction += 1;
                st.class("large_frames", 1);
            }
        }
        None
    })
}

pub fn replay(v: &Value) -> Result<(), String> {
    let cols: Vec<[f32; 3]> = v.get("colours").and_then(|p| p.as_array()).ok_or("colours")?.iter().filter_map(j2px).collect();
    let case = Case {
        cfg: cfg_from_json(v.get("cfg").ok_or("cfg")?).ok_or("cfg")?,
        u8_storage: v.get("storage").and_then(|s| s.as_str()) == Some("u8"),
        bw: v.get("bw").and_then(|x| x.as_u64()).unwrap_or(1) as usize,
        bh: v.get("bh").and_then(|x| x.as_u64()).unwrap_or(1) as usize,
        colours: Colours::Explicit(cols),
        pads: v.get("pads").and_then(|p| serde_json::from_value(p.clone()).ok()).unwrap_or([(0, 0); 3]),
    };
    check(&case, &mut Stats::new()).map_err(|v| v.message)
}

pub const RULE: &str = "cases = (matrix in 7 standard, transfer in 14 supported, primaries in the 10 physical ones (ST 428 excluded as the statement says), range, depth 8..16, storage, subsampling in 6, image of 1..8 x 1..8 chroma blocks (one case in eight: a single row wider than 1024 / 2048 pixels), independent per-plane paddings 0..32, of gamma-encoded in-gamut colours from 6 strata: uniform, greys, cube corners, near black, near white, saturated) generated by proptest, plus an enumeration of the whole configuration space and real-size frames (32768 .. 2 M pixels, rows up to 131080 wide, 4:4:4 / 4:2:0 / 4:2:2); the image is encoded to codes by the oracle quantiser (nearest H.273 code), pixels constant within each chroma block; path Yuv::new -> Xyb::try_from(&yuv) -> Yuv::try_from((xyb, yuv.config())); oracle: width, height, config equal, every sample within max(1, 0.015*(2^n-1)) codes; non-trivial = image with a non-grey colour; distinct = by hash of (config, colours)";
