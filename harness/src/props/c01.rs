//! C01 YUV->RGB decoding equals the H.273 definition for every code triple.

use crate::api::{cfg, cfg_from_json, cfg_json, frame444_pads};
use crate::engine::*;
use crate::gen::{depth_storage, expand_codes, std_matrix};
use crate::oracle::{self, mc_name, STD_MC};
use proptest::prelude::*;
use serde_json::{json, Value};
use yuvxyb::{ColorPrimaries as CP, Pixel, Rgb, TransferCharacteristic as TC, Yuv, YuvConfig};

pub const TOL: f64 = 3e-6;

#[derive(Debug, Clone)]
pub struct Case {
    pub cfg: YuvConfig,
    pub u8_storage: bool,
    pub by_value: bool,
    pub codes: Codes,
    /// rows and per-plane paddings of the frame (None: one row, no padding)
    pub layout: Option<(usize, [(usize, usize); 3])>,
}
#[derive(Debug, Clone)]
pub enum Codes {
    Seeded { stratum: u8, seed: u64, n: usize },
    Explicit(Vec<[u16; 3]>),
}
impl Case {
    pub fn expand(&self) -> Vec<[u16; 3]> {
        let mut v = match &self.codes {
            Codes::Seeded { stratum, seed, n } => expand_codes(self.cfg.bit_depth, *stratum, *seed, *n),
            Codes::Explicit(v) => v.clone(),
        };
        if let Some((h, _)) = self.layout {
            let h = h.clamp(1, v.len().max(1));
            let w = (v.len() / h).max(1);
            v.truncate(w * h);
        }
        v
    }
    pub fn dims(&self, n: usize) -> (usize, usize, [(usize, usize); 3]) {
        match self.layout {
            Some((h, pads)) => {
                let h = h.clamp(1, n.max(1));
                ((n / h).max(1), h, pads)
            }
            None => (n, 1, [(0, 0); 3]),
        }
    }
    fn json_with(&self, codes: &[[u16; 3]]) -> Value {
        if codes.len() > 4096 {
            if let Codes::Seeded { stratum, seed, n } = &self.codes {
                // a real-size frame is stored by its generator parameters, not pixel by pixel
                return json!({"prop":"C01","cfg":cfg_json(&self.cfg),"storage": if self.u8_storage {"u8"} else {"u16"},
                    "by_value": self.by_value, "seeded": {"stratum": stratum, "seed": seed.to_string(), "n": n}, "layout": self.layout});
            }
        }
        json!({"prop":"C01","cfg":cfg_json(&self.cfg),"storage": if self.u8_storage {"u8"} else {"u16"},
               "by_value": self.by_value, "codes": codes, "layout": if codes.len() == 1 { None } else { self.layout }})
    }
}

pub fn strategy() -> BoxedStrategy<Case> {
    (
        std_matrix(),
        any::<bool>(),
        depth_storage(),
        any::<bool>(),
        0u8..7,
        any::<u64>(),
        1usize..=256,
        // labels are carried through unchanged; any supported pair
        crate::gen::sup_transfer(),
        crate::gen::sup_primaries(),
    )
        .prop_map(|(mc, full, (depth, u8s), by_value, stratum, seed, n, tc, cp)| Case {
            cfg: cfg(mc, tc, cp, depth, full, (0, 0)),
            u8_storage: u8s,
            by_value,
            codes: Codes::Seeded { stratum, seed, n },
            layout: {
                let (_, h, pads) = crate::gen::layout_for(seed, n);
                Some((h, pads))
            },
        })
        .boxed()
}

fn decode<T: Pixel>(c: &YuvConfig, codes: &[[u16; 3]], by_value: bool) -> Result<Rgb, String> {
    decode_layout::<T>(c, codes, by_value, codes.len(), 1, [(0, 0); 3])
}

fn decode_layout<T: Pixel>(c: &YuvConfig, codes: &[[u16; 3]], by_value: bool, w: usize, h: usize, pads: [(usize, usize); 3]) -> Result<Rgb, String> {
    let frame = frame444_pads::<T>(codes, w, h, pads);
    let yuv = Yuv::<T>::new(frame, *c).map_err(|e| format!("Yuv::new rejected a well-formed frame: {e:?}"))?;
    let r = if by_value { Rgb::try_from(yuv) } else { Rgb::try_from(&yuv) };
    r.map_err(|e| format!("decode failed: {e:?}"))
}

pub fn reference(c: &YuvConfig, code: [u16; 3]) -> [f64; 3] {
    let n = c.bit_depth as u32;
    let y = oracle::norm_luma(code[0] as u32, n, c.full_range);
    let cb = oracle::norm_chroma(code[1] as u32, n, c.full_range);
    let cr = oracle::norm_chroma(code[2] as u32, n, c.full_range);
    oracle::decode_ypbpr(c.matrix_coefficients, y, cb, cr)
}

pub fn check(case: &Case, st: &mut Stats) -> Result<(), Violation> {
    let codes = case.expand();
    let c = &case.cfg;
    let sig = format!(
        "C01:decode:{}:{}:{}",
        mc_name(c.matrix_coefficients),
        if c.full_range { "full" } else { "limited" },
        if case.u8_storage { "u8" } else { "u16" }
    );
    let fail = |msg: String, codes: &[[u16; 3]]| Violation {
        signature: sig.clone(),
        message: msg,
        case: case.json_with(codes),
    };
    let (w, h, pads) = case.dims(codes.len());
    // for a third of the images the previous call on this thread decodes a permutation of the same triples (result ignored)
    if let Some(k) = prior_perm_kind(codes.iter().flat_map(|p| p.iter().map(|c| *c as u32)), codes.len()) {
        let q = permuted(&codes, k, w);
        let _ = catch(|| if case.u8_storage { decode_layout::<u8>(c, &q, false, w, h, pads).map(|_| ()) } else { decode_layout::<u16>(c, &q, false, w, h, pads).map(|_| ()) });
        st.class("preceded_by_a_permutation_of_the_same_image", 1);
    }
    let res = catch(|| {
        if case.u8_storage {
            decode_layout::<u8>(c, &codes, case.by_value, w, h, pads)
        } else {
            decode_layout::<u16>(c, &codes, case.by_value, w, h, pads)
        }
    });
    let rgb = match res {
        Err(p) => return Err(fail(format!("panic: {p}"), &codes)),
        Ok(Err(e)) => return Err(fail(e, &codes)),
        Ok(Ok(r)) => r,
    };
    st.evaluations += 1;
    if rgb.width() != w || rgb.height() != h || rgb.data().len() != codes.len() {
        return Err(fail(format!("dimensions changed: {}x{} len {}", rgb.width(), rgb.height(), rgb.data().len()), &codes));
    }
    if rgb.transfer() != c.transfer_characteristics || rgb.primaries() != c.color_primaries {
        return Err(fail(format!("labels changed: {:?}/{:?}", rgb.transfer(), rgb.primaries()), &codes));
    }
    let half = 1u16 << (c.bit_depth - 1);
    let mut any_nontrivial = false;
    let k = 1u32 << (c.bit_depth - 8);
    for (i, code) in codes.iter().enumerate() {
        let want = reference(c, *code);
        let got = rgb.data()[i];
        let mut worst = 0.0f64;
        for j in 0..3 {
            let d = (f64::from(got[j]) - want[j]).abs();
            if !(d <= TOL) {
                // shrink the failing triple towards the neutral code while it keeps failing
                let bad = |q: [u16; 3]| -> bool {
                    let r = if case.u8_storage { decode::<u8>(c, &[q], false) } else { decode::<u16>(c, &[q], false) };
                    match r {
                        Ok(r) => {
                            let w = reference(c, q);
                            (0..3).any(|k| !((f64::from(r.data()[0][k]) - w[k]).abs() <= TOL))
                        }
                        Err(_) => false,
                    }
                };
                if !bad(*code) {
                    // the pixel decodes correctly on its own: the failure depends on the image (layout, neighbours)
                    return Err(fail(
                        format!("pixel #{i} {:?} decodes wrongly only inside this {w}x{h} image (paddings {:?}): got {:?}, H.273 gives {:?}; cfg {}", code, pads, got, want, cfg_json(c)),
                        &codes,
                    ));
                }
                let small = minimize_codes(*code, [16u16 << (c.bit_depth - 8), half, half], bad);
                if small != *code && bad(small) {
                    let w2 = reference(c, small);
                    return Err(fail(format!("pixel {:?} (shrunk from {:?}): H.273 gives {:?} but the decoder differs by more than {:e}; cfg {}", small, code, w2, TOL, cfg_json(c)), &[small]));
                }
                return Err(fail(
                    format!(
                        "pixel {:?} component {}: got {:e}, H.273 gives {:e} (|diff| {:e} > {:e}) cfg {}",
                        code, j, got[j], want[j], d, TOL, cfg_json(c)
                    ),
                    &[*code],
                ));
            }
            worst = worst.max(d);
        }
        st.max("max_abs_err", worst);
        if code[1] != half || code[2] != half {
            any_nontrivial = true;
        }
        // classes
        let (y, u, v) = (code[0] as u32, code[1] as u32, code[2] as u32);
        if !c.full_range && (y < 16 * k || y > 235 * k) {
            st.class("luma_clamped", 1);
        }
        if !c.full_range && (u < 16 * k || u > 240 * k || v < 16 * k || v > 240 * k) {
            st.class("chroma_clamped", 1);
        }
        if want.iter().any(|x| *x < 0.0 || *x > 1.0) {
            st.class("rgb_outside_unit_cube", 1);
        }
    }
    st.comparisons += codes.len() as u64;
    st.class(&format!("matrix_{}", mc_name(c.matrix_coefficients)), 1);
    st.class(&format!("depth_{}", c.bit_depth), 1);
    st.class(if case.u8_storage { "storage_u8" } else { "storage_u16" }, 1);
    st.class(if c.full_range { "range_full" } else { "range_limited" }, 1);
    if any_nontrivial {
        st.nontrivial(&(mc_name(c.matrix_coefficients), c.full_range, c.bit_depth, case.u8_storage, &codes));
    }
    st.sample(|| case.json_with(&codes[..codes.len().min(4)]));
    Ok(())
}

/// real-size frames (see gen::LARGE_SIZES). One job = one size; the configs of a job run one after the
/// other on the same thread, with the two ranges of each depth adjacent (per-thread caches keyed on part
/// of the config would show), content from the boundary / extreme / related-neighbour strata.
fn large_frames(ctx: &Ctx, st: &mut Stats) -> Vec<Violation> {
    let sizes: Vec<(usize, usize)> = if ctx.light { vec![(256, 128), (257, 255), (521, 511)] } else { crate::gen::large_sizes(ctx.quick()) };
    let seed0 = ctx.seed;
    // one job = one size and one depth/storage; its three ranges run back to back on the same thread
    par_sweep(ctx, st, sizes.len() as u64 * 4, |lo, hi, st| {
        for jj in lo..hi {
            let j = jj / 4;
            let (w, h) = sizes[j as usize];
            let mut k = (jj % 4) * 3;
            for (depth, u8s) in [[(8u8, true), (16, false), (8, false), (10, false)][(jj % 4) as usize]] {
                for full in [false, true, false] {
                    let mc = STD_MC[((j + k) % 7) as usize];
                    k += 1;
                    let stratum = [1u8, 5, 0, 3][(k % 4) as usize];
                    let case = Case {
                        cfg: cfg(mc, TC::BT1886, CP::BT709, depth, full, (0, 0)),
                        u8_storage: u8s,
                        by_value: k % 5 == 0,
                        codes: Codes::Seeded { stratum, seed: mix64(seed0 ^ (j << 8) ^ k), n: w * h },
                        layout: Some((h, [(0, 0), ((k % 3) as usize, 0), (0, (k % 2) as usize)])),
                    };
                    let mut local = Stats::new();
                    local.sample_budget = 0;
                    if let Err(v) = check(&case, &mut local) {
                        return Some(v);
                    }
                    st.evaluations += 1;
                    st.comparisons += (w * h) as u64;
                    st.nontrivial_by_construction += 1;
                    st.class("large_frames", 1);
                    for (kk, v) in local.maxima {
                        st.max(&kk, v);
                    }
                }
            }
        }
        None
    })
}

// ---------------------------------------------------------------- subsampled frames
/// A subsampled YUV image: "every pixel" of the statement then means luma sample (x,y) with the chroma sample
/// of its block, (x >> ss_x, y >> ss_y).
#[derive(Debug, Clone)]
pub struct SubCase {
    pub cfg: YuvConfig,
    pub u8_storage: bool,
    pub by_value: bool,
    /// size in chroma samples
    pub bw: usize,
    pub bh: usize,
    pub planes: SubPlanes,
    pub pads: [(usize, usize); 3],
}
#[derive(Debug, Clone)]
pub enum SubPlanes {
    Seeded { stratum: u8, seed: u64 },
    Explicit([Vec<u16>; 3]),
}
impl SubCase {
    fn dims(&self) -> (usize, usize) {
        (self.bw << self.cfg.subsampling_x, self.bh << self.cfg.subsampling_y)
    }
    fn planes(&self) -> [Vec<u16>; 3] {
        match &self.planes {
            SubPlanes::Explicit(p) => p.clone(),
            SubPlanes::Seeded { stratum, seed } => {
                let (w, h) = self.dims();
                let luma = expand_codes(self.cfg.bit_depth, *stratum, *seed, w * h);
                let chroma = expand_codes(self.cfg.bit_depth, stratum.wrapping_add((*seed % 3) as u8), mix64(*seed), self.bw * self.bh);
                let mut planes: [Vec<u16>; 3] = [luma.iter().map(|c| c[0]).collect(), chroma.iter().map(|c| c[1]).collect(), chroma.iter().map(|c| c[2]).collect()];
                if seed % 4 == 1 {
                    crate::gen::correlate_plane_rows(&mut planes, [(w, h), (self.bw, self.bh), (self.bw, self.bh)], *seed);
                }
                planes
            }
        }
    }
    fn json_with(&self, planes: &[Vec<u16>; 3]) -> Value {
        json!({"prop":"C01","part":"subsampled","cfg":cfg_json(&self.cfg),"storage": if self.u8_storage {"u8"} else {"u16"},"by_value":self.by_value,
               "bw":self.bw,"bh":self.bh,"pads":self.pads,"planes":planes})
    }
    fn from_json(v: &Value) -> Option<SubCase> {
        Some(SubCase {
            cfg: cfg_from_json(v.get("cfg")?)?,
            u8_storage: v.get("storage").and_then(|s| s.as_str()) == Some("u8"),
            by_value: v.get("by_value").and_then(|s| s.as_bool()).unwrap_or(false),
            bw: v.get("bw")?.as_u64()? as usize,
            bh: v.get("bh")?.as_u64()? as usize,
            planes: SubPlanes::Explicit(serde_json::from_value(v.get("planes")?.clone()).ok()?),
            pads: v.get("pads").and_then(|p| serde_json::from_value(p.clone()).ok()).unwrap_or([(0, 0); 3]),
        })
    }
}

pub fn sub_strategy() -> BoxedStrategy<SubCase> {
    (std_matrix(), any::<bool>(), depth_storage(), crate::gen::pick_from(&crate::gen::SUBSAMPLINGS[1..]), 0u8..7, any::<u64>(), 1usize..=12, 1usize..=6)
        .prop_map(|(mc, full, (depth, u8s), ss, stratum, seed, bw, bh)| {
            let mut e = Expand(seed ^ 0x5B5);
            let mut pads = [(0usize, 0usize); 3];
            if e.below(2) == 0 {
                for p in pads.iter_mut() {
                    *p = (e.below(33) as usize, e.below(4) as usize);
                }
            }
            // now and then a wide frame (rows of more than 256 / 1024 chroma samples)
            let (bw, bh) = match e.below(12) {
                0 => (257 + e.below(300) as usize, 1 + e.below(2) as usize),
                1 => (1025 + e.below(1100) as usize, 1),
                _ => (bw, bh),
            };
            SubCase { cfg: cfg(mc, TC::BT1886, CP::BT709, depth, full, ss), u8_storage: u8s, by_value: seed % 5 == 0, bw, bh, planes: SubPlanes::Seeded { stratum, seed }, pads }
        })
        .boxed()
}

pub fn check_sub(case: &SubCase, st: &mut Stats) -> Result<(), Violation> {
    let c = &case.cfg;
    let planes = case.planes();
    let (w, h) = case.dims();
    let (ssx, ssy) = (c.subsampling_x as usize, c.subsampling_y as usize);
    let sig = format!("C01:decode-subsampled:{}{}:{}:{}", ssx, ssy, mc_name(c.matrix_coefficients), if c.full_range { "full" } else { "limited" });
    let fail = |msg: String| Violation { signature: sig.clone(), message: format!("{msg}; cfg {}", cfg_json(c)), case: case.json_with(&planes) };
    fn go<T: Pixel>(case: &SubCase, planes: &[Vec<u16>; 3], w: usize, h: usize) -> Result<Rgb, String> {
        let c = &case.cfg;
        let frame = crate::conv::yuv_frame::<T>(w, h, (c.subsampling_x, c.subsampling_y), case.pads, planes, 0);
        let yuv = Yuv::<T>::new(frame, *c).map_err(|e| format!("Yuv::new rejected a well-formed frame: {e:?}"))?;
        let r = if case.by_value { Rgb::try_from(yuv) } else { Rgb::try_from(&yuv) };
        r.map_err(|e| format!("decode failed: {e:?}"))
    }
    let rgb = match catch(|| if case.u8_storage { go::<u8>(case, &planes, w, h) } else { go::<u16>(case, &planes, w, h) }) {
        Err(p) => return Err(fail(format!("panic: {p}"))),
        Ok(Err(e)) => return Err(fail(e)),
        Ok(Ok(r)) => r,
    };
    st.evaluations += 1;
    if rgb.width() != w || rgb.height() != h || rgb.data().len() != w * h {
        return Err(fail(format!("dimensions changed: {}x{} len {}", rgb.width(), rgb.height(), rgb.data().len())));
    }
    let half = 1u16 << (c.bit_depth - 1);
    let mut nontrivial = false;
    for y in 0..h {
        for x in 0..w {
            let ci = (y >> ssy) * case.bw + (x >> ssx);
            let code = [planes[0][y * w + x], planes[1][ci], planes[2][ci]];
            let want = reference(c, code);
            let got = rgb.data()[y * w + x];
            for j in 0..3 {
                let d = (f64::from(got[j]) - want[j]).abs();
                if !(d <= TOL) {
                    return Err(fail(format!(
                        "pixel ({x},{y}) of a {w}x{h} image with subsampling ({ssx},{ssy}): luma {} with the chroma sample of its block ({},{}) = ({}, {}) decodes to {:?}, H.273 gives {:?} (component {j} off by {:e} > {:e})",
                        code[0], x >> ssx, y >> ssy, code[1], code[2], got, want, d, TOL
                    )));
                }
                st.max("max_abs_err", d);
            }
            if code[1] != half || code[2] != half {
                nontrivial = true;
            }
        }
    }
    st.comparisons += (w * h) as u64;
    st.class(&format!("subsampling_{}{}", ssx, ssy), 1);
    if nontrivial {
        st.nontrivial(&(cfg_json(c).to_string(), case.u8_storage, &planes));
    }
    st.sample(|| json!({"prop":"C01","part":"subsampled","cfg":cfg_json(c),"bw":case.bw,"bh":case.bh}));
    Ok(())
}

/// every subsampling x matrix x range x depth/storage once more, deterministically
fn subsampled_configs(ctx: &Ctx, st: &mut Stats) -> Vec<Violation> {
    let mut jobs = Vec::new();
    for ss in &crate::gen::SUBSAMPLINGS[1..] {
        for mc in STD_MC {
            for full in [false, true] {
                for (depth, u8s) in [(8u8, true), (8, false), (10, false), (12, false), (16, false)] {
                    jobs.push((cfg(mc, TC::BT1886, CP::BT709, depth, full, *ss), u8s));
                }
            }
        }
    }
    let seed0 = ctx.seed;
    par_sweep(ctx, st, jobs.len() as u64, |lo, hi, st| {
        for j in lo..hi {
            let (c, u8s) = jobs[j as usize];
            let case = SubCase { cfg: c, u8_storage: u8s, by_value: j % 4 == 0, bw: 9 + (j % 5) as usize, bh: 3 + (j % 3) as usize, planes: SubPlanes::Seeded { stratum: (j % 7) as u8, seed: mix64(seed0 ^ j ^ 0x5B6) }, pads: [(0, 0), ((j % 3) as usize, 0), (0, (j % 2) as usize)] };
            let mut local = Stats::new();
            local.sample_budget = 0;
            if let Err(v) = check_sub(&case, &mut local) {
                return Some(v);
            }
            st.evaluations += 1;
            st.comparisons += local.comparisons;
            st.nontrivial_by_construction += 1;
            st.class("subsampled_configs_enumerated", 1);
        }
        None
    })
}

/// Fresh-thread histories: a decode + encode with a matrix *derived from primaries* (every derived matrix x every
/// supported primaries set) right before the first use of a standard matrix on that thread. Tables indexed by H.273
/// code points would let the primaries' code alias the standard matrix with the same number.
fn after_derived_matrix_calls(ctx: &Ctx, st: &mut Stats) -> Vec<Violation> {
    if ctx.light {
        return Vec::new();
    }
    let mut jobs = Vec::new();
    for m in STD_MC {
        for d in super::c06::DERIVED_MC {
            for p in crate::oracle::SUP_CP {
                jobs.push((m, d, p));
            }
        }
    }
    let seed0 = ctx.seed;
    par_sweep(ctx, st, jobs.len() as u64, |lo, hi, st| {
        for j in lo..hi {
            let (m, d, p) = jobs[j as usize];
            let depth = [8u8, 10, 8, 12][(j % 4) as usize];
            let c = cfg(m, TC::BT1886, CP::BT709, depth, j % 2 == 1, (0, 0));
            let case = Case { cfg: c, u8_storage: j % 2 == 0 && depth == 8, by_value: j % 3 == 0, codes: Codes::Seeded { stratum: (j % 7) as u8, seed: mix64(seed0 ^ j ^ 0xDEC0), n: 96 }, layout: Some((2, [(0, 0); 3])) };
            let r = std::thread::scope(|sc| {
                sc.spawn(|| {
                    super::c06::yuv_calls(d, p);
                    let mut local = Stats::new();
                    local.sample_budget = 0;
                    check(&case, &mut local).map(|_| local.comparisons)
                })
                .join()
            });
            match r {
                Ok(Ok(n)) => st.comparisons += n,
                Ok(Err(mut v)) => {
                    v.message = format!("{} [first use of this matrix on a fresh thread, right after a decode and an encode with matrix {:?} and primaries {:?}]", v.message, d, p);
                    return Some(v);
                }
                Err(_) => return Some(Violation { signature: "panic".into(), message: "history thread panicked".into(), case: Value::Null }),
            }
            st.evaluations += 1;
            st.nontrivial_by_construction += 1;
            st.class("fresh_thread_histories_after_derived_matrix_calls", 1);
        }
        None
    })
}

/// uniformly tinted frames of power-of-two sizes: both chroma planes constant at extreme / neutral values, luma
/// random - whole-plane statistics (sums that wrap, "is this frame grey" shortcuts) are extreme exactly there
fn tinted_frames(ctx: &Ctx, st: &mut Stats) -> Vec<Violation> {
    if ctx.light {
        return Vec::new();
    }
    let sizes = crate::gen::pow2_sizes(ctx.quick());
    let seed0 = ctx.seed;
    par_sweep(ctx, st, sizes.len() as u64 * 32, |lo, hi, st| {
        for j in lo..hi {
            let (w, h) = sizes[(j / 32) as usize];
            let (depth, u8s) = [(8u8, true), (16, false), (12, false), (10, false)][((j / 8) % 4) as usize];
            let pattern = j % 8;
            let case = Case {
                cfg: cfg(STD_MC[(j % 7) as usize], TC::BT1886, CP::BT709, depth, j % 3 == 0, (0, 0)),
                u8_storage: u8s,
                by_value: j % 5 == 0,
                codes: Codes::Seeded { stratum: 6, seed: (mix64(seed0 ^ j ^ 0x71D7) & !7) | pattern, n: w * h },
                layout: Some((h, [(0, 0); 3])),
            };
            let mut local = Stats::new();
            local.sample_budget = 0;
            if let Err(v) = check(&case, &mut local) {
                return Some(v);
            }
            st.evaluations += 1;
            st.comparisons += (w * h * 3) as u64;
            st.nontrivial_by_construction += 1;
            st.class("tinted_pow2_frames", 1);
        }
        None
    })
}

pub fn run(ctx: &Ctx, st: &mut Stats) -> Vec<Violation> {
    let mut v = run_proptest(ctx, st, "random", ctx.cases(30_000, 3_000_000), strategy, check);
    if !v.is_empty() {
        return v;
    }
    v.extend(large_frames(ctx, st));
    if !v.is_empty() {
        return v;
    }
    v.extend(tinted_frames(ctx, st));
    if !v.is_empty() {
        return v;
    }
    v.extend(after_derived_matrix_calls(ctx, st));
    if !v.is_empty() {
        return v;
    }
    v.extend(run_proptest(ctx, st, "subsampled", ctx.cases(12_000, 600_000), sub_strategy, check_sub));
    if !v.is_empty() {
        return v;
    }
    v.extend(subsampled_configs(ctx, st));
    if !v.is_empty() {
        return v;
    }
    v.extend(super::soak::run(ctx, st, "C01", soak_jobs(ctx)));
    if !v.is_empty() {
        return v;
    }
    if !ctx.quick() {
        v.extend(exhaustive_8bit(ctx, st));
        if !v.is_empty() {
            return v;
        }
        v.extend(deep_sweeps(ctx, st));
    } else {
        // quick: a slice of the exhaustive 8-bit cube (every 17th luma plane) for each config
        v.extend(exhaustive_8bit(ctx, st));
    }
    v
}

/// all 2^24 triples at 8 bit for 7 matrices x 2 ranges x both storages (quick: every 17th Y)
fn exhaustive_8bit(ctx: &Ctx, st: &mut Stats) -> Vec<Violation> {
    let ystep: u64 = if ctx.light { 17 } else { ctx.pick(5, 1) };
    let nconf = (STD_MC.len() * 2 * 2) as u64;
    let ys: Vec<u64> = (0..256).step_by(ystep as usize).collect();
    let total = nconf * ys.len() as u64;
    let out = par_sweep(ctx, st, total, |lo, hi, st| {
        for idx in lo..hi {
            let ci = idx / ys.len() as u64;
            let y = ys[(idx % ys.len() as u64) as usize] as u16;
            let mc = STD_MC[(ci / 4) as usize];
            let full = (ci / 2) % 2 == 1;
            let u8s = ci % 2 == 1;
            let mut codes = Vec::with_capacity(65536);
            for u in 0..256u16 {
                for v in 0..256u16 {
                    codes.push([y, u, v]);
                }
            }
            let case = Case {
                cfg: cfg(mc, TC::BT1886, CP::BT709, 8, full, (0, 0)),
                u8_storage: u8s,
                by_value: false,
                codes: Codes::Explicit(codes),
                layout: Some((256, [(0, 0), (y as usize % 5, 0), (0, 1)])),
            };
            let mut local = Stats::new();
            local.sample_budget = 0;
            if let Err(v) = check(&case, &mut local) {
                return Some(v);
            }
            st.evaluations += 1;
            st.comparisons += 65536;
            st.nontrivial_by_construction += 1;
            for (k, v) in local.maxima {
                st.max(&k, v);
            }
            st.class("exhaustive_8bit_planes", 1);
        }
        None
    });
    if ystep == 1 {
        st.exhaustive_parts.push("all 2^24 (Y,U,V) triples at 8 bit x 7 matrices x 2 ranges x {u8,u16}".into());
    }
    out
}

/// 9..16 bit: complete single-axis sweeps through anchor pairs, plus 2^22 random triples per config
fn deep_sweeps(ctx: &Ctx, st: &mut Stats) -> Vec<Violation> {
    let mut jobs = Vec::new();
    for mc in STD_MC {
        for full in [false, true] {
            for depth in 9u8..=16 {
                jobs.push((mc, full, depth));
            }
        }
    }
    par_sweep(ctx, st, jobs.len() as u64, |lo, hi, st| {
        for j in lo..hi {
            let (mc, full, depth) = jobs[j as usize];
            let c = cfg(mc, TC::BT1886, CP::BT709, depth, full, (0, 0));
            let max = (1u32 << depth) - 1;
            let b = crate::gen::boundary_codes(depth);
            let anchors = [b[0], b[b.len() / 3], b[b.len() / 2], b[2 * b.len() / 3], b[b.len() - 1]];
            // axis sweeps
            for axis in 0..3 {
                for a1 in anchors {
                    for a2 in anchors {
                        let mut codes = Vec::with_capacity(max as usize + 1);
                        for x in 0..=max {
                            let mut p = [a1, a2, a2];
                            p[(axis + 1) % 3] = a1;
                            p[(axis + 2) % 3] = a2;
                            p[axis] = x as u16;
                            codes.push(p);
                        }
                        let case = Case { cfg: c, u8_storage: false, by_value: false, codes: Codes::Explicit(codes), layout: None };
                        let mut local = Stats::new();
                        local.sample_budget = 0;
                        if let Err(v) = check(&case, &mut local) {
                            return Some(v);
                        }
                        st.evaluations += 1;
                        st.comparisons += max as u64 + 1;
                        st.nontrivial_by_construction += 1;
                        st.class("axis_sweeps", 1);
                    }
                }
            }
            // random
            for chunk in 0..256u64 {
                let case = Case {
                    cfg: c,
                    u8_storage: false,
                    by_value: false,
                    codes: Codes::Seeded { stratum: if chunk % 4 == 3 { 5 } else { 0 }, seed: mix64(ctx.seed ^ (j << 20) ^ chunk), n: 65536 },
                    layout: Some((64, [(0, 0), (chunk as usize % 3, 0), (0, 0)])),
                };
                let mut local = Stats::new();
                local.sample_budget = 0;
                if let Err(v) = check(&case, &mut local) {
                    return Some(v);
                }
                st.evaluations += 1;
                st.comparisons += 65536;
                st.nontrivial_by_construction += 1;
                st.class("deep_random_chunks", 1);
            }
        }
        None
    })
}

/// long single-thread decode histories (soak.rs): configs differing in matrix, range or depth
fn soak_jobs(ctx: &Ctx) -> Vec<super::soak::Job> {
    use super::soak::{with_periods, Side, PERIODS};
    use crate::conv::{Edge, Kind};
    let mut jobs = Vec::new();
    for (kind, depth) in [(Kind::Yuv8, 8u8), (Kind::Yuv16, 10), (Kind::Yuv16, 16)] {
        let a = cfg(STD_MC[0], TC::BT1886, CP::BT709, depth, false, (0, 0));
        let mut variants = vec![cfg(STD_MC[5], TC::BT1886, CP::BT709, depth, false, (0, 0)), cfg(STD_MC[0], TC::BT1886, CP::BT709, depth, true, (0, 0)), cfg(STD_MC[6], TC::BT1886, CP::BT709, depth, true, (0, 0))];
        if kind == Kind::Yuv16 {
            variants.push(cfg(STD_MC[0], TC::BT1886, CP::BT709, if depth == 16 { 12 } else { 9 }, false, (0, 0)));
        }
        for (i, b) in variants.into_iter().enumerate() {
            if ctx.light && i > 0 {
                continue;
            }
            for by_ref in [true, false] {
                jobs.extend(with_periods(Side { kind, edge: Edge::YuvToRgb { by_ref }, cfg: a }, Side { kind, edge: Edge::YuvToRgb { by_ref }, cfg: b }, &PERIODS));
            }
        }
    }
    jobs
}

pub fn replay(v: &Value) -> Result<(), String> {
    if v.get("part").and_then(|p| p.as_str()) == Some("soak") {
        return super::soak::replay("C01", v);
    }
    if v.get("part").and_then(|p| p.as_str()) == Some("subsampled") {
        return check_sub(&SubCase::from_json(v).ok_or("bad subsampled case")?, &mut Stats::new()).map_err(|v| v.message);
    }
    let cfg = cfg_from_json(v.get("cfg").ok_or("cfg")?).ok_or("bad cfg")?;
    let codes = match v.get("seeded") {
        Some(sd) => Codes::Seeded {
            stratum: sd.get("stratum").and_then(|x| x.as_u64()).ok_or("stratum")? as u8,
            seed: sd.get("seed").and_then(|x| x.as_str()).and_then(|x| x.parse().ok()).ok_or("seed")?,
            n: sd.get("n").and_then(|x| x.as_u64()).ok_or("n")? as usize,
        },
        None => Codes::Explicit(serde_json::from_value(v.get("codes").ok_or("codes")?.clone()).map_err(|e| e.to_string())?),
    };
    let case = Case {
        cfg,
        u8_storage: v.get("storage").and_then(|s| s.as_str()) == Some("u8"),
        by_value: v.get("by_value").and_then(|s| s.as_bool()).unwrap_or(false),
        codes,
        layout: v.get("layout").and_then(|l| serde_json::from_value(l.clone()).ok()).flatten(),
    };
    check(&case, &mut Stats::new()).map_err(|v| v.message)
}

pub const RULE: &str = "cases = (matrix in 7 standard, range, depth 8..16, storage, by-ref/by-value, batch of 1..256 code triples from 7 strata: uniform, boundary codes, single-axis sweep, mixed, near-neutral chroma, related neighbours, constant chroma; laid out in 1..4 rows with independent per-plane paddings 0..32) generated by proptest, plus real-size frames (32768 .. 2 M pixels, rows up to 131080 wide, pixel counts that are not multiples of 8) in u8/u16 storage at 8/10/16 bit with the two ranges adjacent on one thread, plus uniformly tinted frames of power-of-two sizes (constant extreme / neutral chroma planes), plus subsampled frames (4:2:2, 4:2:0, 4:4:0, 4:1:1, 4:1:0 with independent plane paddings; each luma sample with the chroma sample of its block; random and every subsampling x matrix x range x depth enumerated), plus long single-thread decode histories (periods 255, 256, 65535, 65536; configs differing in matrix, range or depth), plus enumerated 8-bit (Y-plane = 65536 triples) and deep sweeps; each pixel compared with the f64 H.273 formula (tol 3e-6); non-trivial = batch containing a pixel whose chroma codes are not both 2^(n-1) (so the matrix matters); distinct = by hash of (config, batch)";
