//! C12 Constructors accept exactly the well-formed images and keep them verbatim.

use crate::api::cfg;
use crate::engine::*;
use crate::frames::{frame_spec, FrameSpec, PlaneSpec};
use crate::gen::{pick_from, std_matrix, sup_primaries, sup_transfer};
use proptest::prelude::*;
use serde_json::{json, Value};
use yuvxyb::{ColorPrimaries as CP, CreationError, Frame, Hsl, LinearRgb, Pixel, Rgb, TransferCharacteristic as TC, Xyb, Yuv, YuvConfig, YuvError};

const SS: [(u8, u8); 9] = [(0, 0), (1, 0), (1, 1), (0, 1), (2, 0), (2, 2), (0, 2), (2, 1), (1, 2)];

pub fn cfg_strategy() -> BoxedStrategy<YuvConfig> {
    (std_matrix(), sup_transfer(), sup_primaries(), prop_oneof![Just(8u8), Just(10u8), Just(12u8), Just(16u8), 9u8..=16], any::<bool>(), pick_from(&SS), prop_oneof![3 => Just(0u8), 1 => 1u8..8])
        .prop_map(|(m, t, p, d, full, ss, unspec)| {
            // a quarter of the configs leave a subset of {matrix, primaries, transfer} Unspecified: the
            // accepted image must then expose the documented resolution of exactly those fields
            cfg(
                if unspec & 1 != 0 { yuvxyb::MatrixCoefficients::Unspecified } else { m },
                if unspec & 4 != 0 { TC::Unspecified } else { t },
                if unspec & 2 != 0 { CP::Unspecified } else { p },
                d,
                full,
                ss,
            )
        })
        .boxed()
}

pub fn strategy() -> BoxedStrategy<FrameSpec> {
    frame_spec(cfg_strategy(), true)
}

#[derive(Debug, Clone, PartialEq)]
pub enum Outcome {
    Accepted,
    Rejected(YuvError),
}

/// run the constructor; on acceptance also compare the accessors with what was passed
fn construct<T: Pixel>(spec: &FrameSpec) -> Result<(Outcome, Option<bool>), String> {
    let (frame, bad_visible): (Frame<T>, _) = spec.build::<T>();
    let copy = frame.clone();
    match Yuv::<T>::new(frame, spec.cfg) {
        Err(e) => Ok((Outcome::Rejected(e), bad_visible)),
        Ok(yuv) => {
            if yuv.width() != spec.planes[0].w || yuv.height() != spec.planes[0].h {
                return Err(format!("accepted image reports {}x{}, luma plane is {}x{}", yuv.width(), yuv.height(), spec.planes[0].w, spec.planes[0].h));
            }
            let want = super::c15::resolve_yuv(&spec.cfg, spec.planes[0].w, spec.planes[0].h);
            if yuv.config() != want {
                return Err(format!("accepted image reports config {:?}, expected {:?} (the given config apart from the resolution of Unspecified metadata)", yuv.config(), want));
            }
            if yuv.data() != &copy.planes[..] {
                return Err("accepted image does not expose the planes it was given".into());
            }
            Ok((Outcome::Accepted, bad_visible))
        }
    }
}

pub fn check(spec: &FrameSpec, st: &mut Stats) -> Result<(), Violation> {
    let fail = |sig: &str, msg: String| Violation { signature: format!("C12:{sig}"), message: msg, case: json!({"prop":"C12","part":"yuv","spec":spec.to_json()}) };
    // a sibling construction first: same geometry and metadata, another range (and depth): the
    // constructor is a pure function of its arguments, nothing may leak into the next call
    {
        let mut sib = spec.clone();
        let kind = spec.fill_seed % 3;
        if kind != 1 {
            sib.cfg.full_range = !spec.cfg.full_range;
            if !spec.u8_storage {
                sib.cfg.bit_depth = 16;
            }
        }
        if kind != 0 {
            // ... or another horizontal subsampling, with chroma planes to match (everything else equal)
            let ssx = if spec.cfg.subsampling_x == 0 { 1 } else { 0 };
            sib.cfg.subsampling_x = ssx;
            for i in 1..3 {
                sib.planes[i].w = spec.planes[0].w >> ssx;
                sib.planes[i].xdec = ssx as usize;
            }
        }
        sib.bad = None;
        let _ = catch(|| if sib.u8_storage { construct::<u8>(&sib).map(|_| ()) } else { construct::<u16>(&sib).map(|_| ()) });
    }
    let res = catch(|| if spec.u8_storage { construct::<u8>(spec) } else { construct::<u16>(spec) });
    st.evaluations += 1;
    let (outcome, bad_visible) = match res {
        Err(p) => return Err(fail("yuv-ctor-panic", format!("Yuv::new panicked: {p}; spec {}", spec.to_json()))),
        Ok(Err(m)) => return Err(fail("yuv-verbatim", format!("{m}; spec {}", spec.to_json()))),
        Ok(Ok(o)) => o,
    };
    let dec = spec.decimation_ok();
    let (lw, lh) = (spec.luma_w_ok(), spec.luma_h_ok());
    let (cw, ch) = (spec.chroma_w_ok(), spec.chroma_h_ok());
    let data_ok = !(bad_visible == Some(true));
    let expect_ok = dec && lw && lh && cw && ch && data_ok;
    match &outcome {
        Outcome::Accepted => {
            if !expect_ok {
                let why = if !dec {
                    "plane decimation differs from the configured subsampling"
                } else if !lw || !lh {
                    "luma size is not a multiple of the subsampling factor"
                } else if !cw || !ch {
                    "a chroma plane does not have the size the subsampling implies"
                } else {
                    "a visible sample exceeds 2^n-1"
                };
                let sig = if !cw || !ch { "yuv-accepts-wrong-chroma-size" } else if !data_ok { "yuv-accepts-bad-sample" } else { "yuv-accepts-malformed" };
                return Err(fail(sig, format!("Yuv::new accepted a malformed frame ({why}); spec {}", spec.to_json())));
            }
            st.class("accepted", 1);
        }
        Outcome::Rejected(e) => {
            if expect_ok {
                return Err(fail("yuv-rejects-wellformed", format!("Yuv::new rejected a well-formed frame with {e:?}; spec {}", spec.to_json())));
            }
            // the reported variant must belong to a conjunct that is actually violated
            let justified = match e {
                YuvError::SubsamplingMismatch => !dec || !cw || !ch,
                YuvError::InvalidLumaWidth => !lw || !cw,
                YuvError::InvalidLumaHeight => !lh || !ch,
                YuvError::InvalidData => !data_ok,
            };
            if !justified {
                return Err(fail(
                    "yuv-wrong-error",
                    format!("Yuv::new reported {e:?} but that condition holds (dec_ok={dec} luma_w_ok={lw} luma_h_ok={lh} chroma_w_ok={cw} chroma_h_ok={ch} data_ok={data_ok}); spec {}", spec.to_json()),
                ));
            }
            st.class(&format!("rejected_{e:?}"), 1);
        }
    }
    if !dec {
        st.class("decimation_mismatch", 1);
    }
    if !cw || !ch {
        st.class("chroma_size_mismatch", 1);
    }
    if spec.chroma_too_small() {
        st.class("chroma_too_small", 1);
    }
    match bad_visible {
        Some(true) => st.class("bad_sample_visible", 1),
        Some(false) => st.class("bad_sample_in_padding", 1),
        None => {}
    }
    if spec.planes.iter().any(|p| p.from_slice) {
        st.class("uses_from_slice", 1);
    }
    // non-trivial: the frame is malformed in exactly one way, or is well-formed with a bad sample in padding
    let defects = [!dec, !(lw && lh), !(cw && ch), !data_ok].iter().filter(|b| **b).count();
    if defects == 1 || (expect_ok && bad_visible == Some(false)) {
        st.nontrivial(&format!("{}", spec.to_json()));
    }
    st.sample(|| spec.to_json());
    Ok(())
}

// ------------------------------------------------------------------ float constructors

fn check_float_ctor(len: usize, w: usize, h: usize, st: &mut Stats) -> Result<(), Violation> {
    let data: Vec<[f32; 3]> = (0..len).map(|i| [i as f32, -(i as f32), 0.5]).collect();
    let expect = len == w * h;
    let mk = |which: &str, msg: String| Violation {
        signature: format!("C12:float-ctor:{which}"),
        message: format!("{which}::new(len={len}, w={w}, h={h}): {msg}"),
        case: json!({"prop":"C12","part":"float","len":len,"w":w,"h":h}),
    };
    macro_rules! one {
        ($name:literal, $ctor:expr) => {{
            match catch(|| $ctor) {
                Err(p) => return Err(mk($name, format!("panicked: {p}"))),
                Ok(Ok(img)) => {
                    if !expect {
                        return Err(mk($name, "accepted although len != w*h".into()));
                    }
                    let (d, ww, hh): (&[[f32; 3]], usize, usize) = (img.data(), img.width(), img.height());
                    if ww != w || hh != h || d.len() != data.len() || d.iter().zip(&data).any(|(a, b)| (0..3).any(|i| a[i].to_bits() != b[i].to_bits())) {
                        return Err(mk($name, "accepted image does not expose the data/dimensions it was given".into()));
                    }
                }
                Ok(Err(e)) => {
                    if expect {
                        return Err(mk($name, format!("rejected although len == w*h ({e:?})")));
                    }
                    if e != CreationError::ResolutionMismatch {
                        return Err(mk($name, format!("wrong error {e:?}")));
                    }
                }
            }
        }};
    }
    one!("Rgb", Rgb::new(data.clone(), w, h, TC::SRGB, CP::BT709));
    one!("LinearRgb", LinearRgb::new(data.clone(), w, h));
    one!("Xyb", Xyb::new(data.clone(), w, h));
    one!("Hsl", Hsl::new(data.clone(), w, h));
    st.comparisons += 4;
    Ok(())
}

fn float_ctors(ctx: &Ctx, st: &mut Stats) -> Vec<Violation> {
    let n: u64 = 41;
    let out = par_sweep(ctx, st, n * n * n, |lo, hi, st| {
        for i in lo..hi {
            let (len, w, h) = ((i / (n * n)) as usize, ((i / n) % n) as usize, (i % n) as usize);
            if let Err(v) = check_float_ctor(len, w, h, st) {
                return Some(v);
            }
            st.evaluations += 1;
            if len == w * h || (len as i64 - (w * h) as i64).abs() == 1 {
                st.nontrivial_by_construction += 1;
            }
        }
        st.class("float_ctor_triples", hi - lo);
        None
    });
    st.exhaustive_parts.push("all (len,w,h) in 0..=40 for Rgb, LinearRgb, Xyb, Hsl constructors (4 x 68,921)".into());
    st.samples.push(json!({"part":"float","len":6,"w":2,"h":3,"note":"every (len,w,h) in 0..=40 is enumerated"}));
    out
}

/// exhaustive sub-lattice of YUV geometries (U and V share a geometry)
fn yuv_lattice(ctx: &Ctx, st: &mut Stats) -> Vec<Violation> {
    let dims: Vec<usize> = (1..=12).collect();
    let cdims: Vec<usize> = (0..=13).collect();
    let mut jobs = Vec::new();
    for &(sx, sy) in &SS {
        for (ci, (depth, u8s)) in [(8u8, true), (10, false), (16, false)].into_iter().enumerate() {
            let _ = ci;
            jobs.push((sx, sy, depth, u8s));
        }
    }
    let per = (dims.len() * dims.len()) as u64;
    par_sweep(ctx, st, jobs.len() as u64 * per, |lo, hi, st| {
        for idx in lo..hi {
            let (sx, sy, depth, u8s) = jobs[(idx / per) as usize];
            let w = dims[((idx % per) / dims.len() as u64) as usize];
            let h = dims[((idx % per) % dims.len() as u64) as usize];
            for &cw in &cdims {
                for &ch in &cdims {
                    for (xd, yd) in [(sx as usize, sy as usize), ((sx as usize + 1) % 3, sy as usize), (sx as usize, (sy as usize + 1) % 3)] {
                        let c = PlaneSpec { w: cw, h: ch, xdec: xd, ydec: yd, xpad: 0, ypad: 0, from_slice: false };
                        let spec = FrameSpec {
                            planes: [PlaneSpec { w, h, xdec: 0, ydec: 0, xpad: 0, ypad: 0, from_slice: false }, c.clone(), c],
                            u8_storage: u8s,
                            cfg: cfg(yuvxyb::MatrixCoefficients::BT709, TC::BT1886, CP::BT709, depth, false, (sx, sy)),
                            fill_seed: idx,
                            bad: None,
                        };
                        let mut local = Stats::new();
                        local.sample_budget = 0;
                        if let Err(v) = check(&spec, &mut local) {
                            return Some(v);
                        }
                        st.evaluations += 1;
                        st.nontrivial_by_construction += local.nontrivial_hashes.len() as u64;
                        for (k, v) in local.classes {
                            st.class(&k, v);
                        }
                    }
                }
            }
        }
        None
    })
}

pub fn run(ctx: &Ctx, st: &mut Stats) -> Vec<Violation> {
    let mut v = float_ctors(ctx, st);
    if !v.is_empty() {
        return v;
    }
    v.extend(run_proptest(ctx, st, "frames", ctx.cases(200_000, 10_000_000), strategy, check));
    if !v.is_empty() || ctx.quick() {
        return v;
    }
    v.extend(yuv_lattice(ctx, st));
    if v.is_empty() {
        st.exhaustive_parts.push("YUV sub-lattice: luma 1..=12 x 1..=12, chroma 0..=13 x 0..=13 (U=V), 9 subsamplings, 3 decimation variants, 3 depth/storage combinations".into());
    }
    v
}

pub fn replay(v: &Value) -> Result<(), String> {
    match v.get("part").and_then(|p| p.as_str()) {
        Some("float") => {
            let g = |k: &str| v.get(k).and_then(|x| x.as_u64()).unwrap_or(0) as usize;
            check_float_ctor(g("len"), g("w"), g("h"), &mut Stats::new()).map_err(|v| v.message)
        }
        _ => {
            let spec = FrameSpec::from_json(v.get("spec").ok_or("spec")?).ok_or("bad spec")?;
            check(&spec, &mut Stats::new()).map_err(|v| v.message)
        }
    }
}

pub const RULE: &str = "cases = frame specifications generated by proptest: luma w,h in 1..=12 plus {31,32,33,63,64,65,130}; U and V plane sizes drawn independently of luma (required, +-1, 0..=13, double), per-plane xdec/ydec (mostly the configured one, sometimes 0..=2), padding 0..=17, Plane::new or Plane::from_slice, u8/u16 storage, depth 8..16, 9 subsamplings, a quarter of the configs with a subset of {matrix, primaries, transfer} Unspecified, optional single out-of-range sample (value in (2^n-1, 65535]) at a visible or padding position of any plane; oracle = the four conjuncts of the statement evaluated on the specification: Ok iff all hold, an Err variant must belong to a violated conjunct, no panic, accepted images expose the identical planes/dims/config (Unspecified fields resolved as documented); each construction is preceded by a sibling construction with another range/depth (no state may leak); plus the complete enumeration of (len,w,h) in 0..=40 for the four float constructors; non-trivial = a frame malformed in exactly one way, or well-formed with an out-of-range sample hidden in padding (float: len within 1 of w*h); distinct = by hash of the specification";
