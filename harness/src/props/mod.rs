use crate::engine::{Ctx, Stats, Violation};
use serde_json::Value;

pub mod c01;
pub mod c02;
pub mod c03;
pub mod c04;
pub mod c06;
pub mod c07;
pub mod c08;
pub mod c09;
pub mod c10;
pub mod c11;
pub mod c11_hist;
pub mod c11_order;
pub mod c12;
pub mod c13;
pub mod c14;
pub mod c15;
pub mod c16;
pub mod c17;
pub mod c18;
pub mod c19;
pub mod c20;
pub mod hist;
pub mod soak;

pub struct Prop {
    pub id: &'static str,
    pub run: fn(&Ctx, &mut Stats) -> Vec<Violation>,
    pub replay: fn(&Value) -> Result<(), String>,
    pub rule: &'static str,
    pub assumptions: &'static [&'static str],
    /// run under a supervising parent process (abnormal termination is attributed to the journalled case)
    pub isolated: bool,
    /// small replayable cases drawn from the property's own generators (for the Miri engine)
    pub corpus: Option<fn(u64, usize) -> Vec<Value>>,
}

const COMMON_ASSUMPTIONS: &[&str] = &[
    "the f64 reference model in harness/src/oracle.rs transcribes the property statement / cited standard correctly",
    "rustc/LLVM compile the harness and the library faithfully; f64 libm is accurate to well below the stated tolerances",
    "generated search: the property is decided on the explored inputs only, unless coverage.exhaustive_parts says a domain was enumerated",
];

pub fn lookup(id: &str) -> Option<Prop> {
    Some(match id {
        "C01" => Prop { id: "C01", run: c01::run, replay: c01::replay, rule: c01::RULE, assumptions: COMMON_ASSUMPTIONS, isolated: false, corpus: None },
        "C02" => Prop { id: "C02", run: c02::run, replay: c02::replay, rule: c02::RULE, assumptions: COMMON_ASSUMPTIONS, isolated: false, corpus: None },
        "C03" => Prop { id: "C03", run: c03::run, replay: c03::replay, rule: c03::RULE, assumptions: COMMON_ASSUMPTIONS, isolated: false, corpus: None },
        "C04" => Prop { id: "C04", run: c04::run_c04, replay: c04::replay_c04, rule: c04::RULE_C04, assumptions: COMMON_ASSUMPTIONS, isolated: false, corpus: None },
        "C05" => Prop { id: "C05", run: c04::run_c05, replay: c04::replay_c05, rule: c04::RULE_C05, assumptions: COMMON_ASSUMPTIONS, isolated: false, corpus: None },
        "C06" => Prop { id: "C06", run: c06::run, replay: c06::replay, rule: c06::RULE, assumptions: COMMON_ASSUMPTIONS, isolated: false, corpus: None },
        "C07" => Prop { id: "C07", run: c07::run, replay: c07::replay, rule: c07::RULE, assumptions: COMMON_ASSUMPTIONS, isolated: true, corpus: Some(c07::corpus) },
        "C08" => Prop { id: "C08", run: c08::run, replay: c08::replay, rule: c08::RULE, assumptions: COMMON_ASSUMPTIONS, isolated: false, corpus: None },
        "C09" => Prop { id: "C09", run: c09::run, replay: c09::replay, rule: c09::RULE, assumptions: COMMON_ASSUMPTIONS, isolated: false, corpus: None },
        "C10" => Prop { id: "C10", run: c10::run, replay: c10::replay, rule: c10::RULE, assumptions: COMMON_ASSUMPTIONS, isolated: false, corpus: None },
        "C11" => Prop { id: "C11", run: c11::run, replay: c11::replay, rule: c11::RULE, assumptions: COMMON_ASSUMPTIONS, isolated: false, corpus: None },
        "C12" => Prop { id: "C12", run: c12::run, replay: c12::replay, rule: c12::RULE, assumptions: COMMON_ASSUMPTIONS, isolated: false, corpus: None },
        "C13" => Prop { id: "C13", run: c13::run, replay: c13::replay, rule: c13::RULE, assumptions: COMMON_ASSUMPTIONS, isolated: true, corpus: Some(c13::corpus) },
        "C14" => Prop { id: "C14", run: c14::run, replay: c14::replay, rule: c14::RULE, assumptions: COMMON_ASSUMPTIONS, isolated: false, corpus: None },
        "C15" => Prop { id: "C15", run: c15::run, replay: c15::replay, rule: c15::RULE, assumptions: COMMON_ASSUMPTIONS, isolated: false, corpus: None },
        "C16" => Prop { id: "C16", run: c16::run, replay: c16::replay, rule: c16::RULE, assumptions: COMMON_ASSUMPTIONS, isolated: false, corpus: None },
        "C17" => Prop { id: "C17", run: c17::run, replay: c17::replay, rule: c17::RULE, assumptions: COMMON_ASSUMPTIONS, isolated: false, corpus: None },
        "C18" => Prop { id: "C18", run: c18::run, replay: c18::replay, rule: c18::RULE, assumptions: COMMON_ASSUMPTIONS, isolated: false, corpus: Some(c18::corpus) },
        "C19" => Prop { id: "C19", run: c19::run, replay: c19::replay, rule: c19::RULE, assumptions: COMMON_ASSUMPTIONS, isolated: false, corpus: None },
        "C20" => Prop { id: "C20", run: c20::run, replay: c20::replay, rule: c20::RULE, assumptions: COMMON_ASSUMPTIONS, isolated: false, corpus: None },
        _ => return None,
    })
}

pub fn worker_main(_args: &[String]) -> i32 {
    2
}
