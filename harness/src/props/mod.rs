use crate::engine::{Ctx, Stats, Violation};
use serde_json::Value;

pub mod c01;

pub struct Prop {
    pub id: &'static str,
    pub run: fn(&Ctx, &mut Stats) -> Vec<Violation>,
    pub replay: fn(&Value) -> Result<(), String>,
    pub rule: &'static str,
    pub assumptions: &'static [&'static str],
}

const COMMON_ASSUMPTIONS: &[&str] = &[
    "the f64 reference model in harness/src/oracle.rs transcribes the property statement / cited standard correctly",
    "rustc/LLVM compile the harness and the library faithfully; f64 libm is accurate to well below the stated tolerances",
    "generated search: the property is decided on the explored inputs only, unless coverage.exhaustive_parts says a domain was enumerated",
];

pub fn lookup(id: &str) -> Option<Prop> {
    Some(match id {
        "C01" => Prop { id: "C01", run: c01::run, replay: c01::replay, rule: c01::RULE, assumptions: COMMON_ASSUMPTIONS },
        _ => return None,
    })
}

pub fn worker_main(_args: &[String]) -> i32 {
    2
}
