//! C03 Transfer characteristics follow their defining curves in both directions.
//! (Also provides the curve generators and library wrappers used by C10, C16 and C20.)

use crate::engine::*;
use crate::gen::sup_transfer;
use crate::oracle::{self, is_1886_alias, tc_from_name, tc_name, SUP_TC};
use proptest::prelude::*;
use serde_json::{json, Value};
use yuvxyb::{ColorPrimaries as CP, LinearRgb, Rgb, TransferCharacteristic as TC};

#[derive(Debug, Clone, Copy, PartialEq, Eq, Hash)]
pub enum Dir {
    ToLinear,
    ToGamma,
}

/// stated budgets; `exact` = build without fastmath (C20: 5e-5 for every curve)
pub fn tolerance(t: TC, d: Dir) -> f64 {
    if !cfg!(feature = "fastmath") {
        return 5e-5;
    }
    if t == TC::PerceptualQuantizer && d == Dir::ToGamma {
        5.7e-4
    } else {
        2.5e-4
    }
}

fn pack(vals: &[f32]) -> (Vec<[f32; 3]>, usize) {
    let n = (vals.len() + 2) / 3;
    let mut px = vec![[0.5f32; 3]; n];
    for (i, v) in vals.iter().enumerate() {
        px[i / 3][i % 3] = *v;
    }
    (px, n)
}
fn unpack(px: &[[f32; 3]], n: usize) -> Vec<f32> {
    (0..n).map(|i| px[i / 3][i % 3]).collect()
}

/// one checked value per pixel (component i % 3); the two other components ("mates") are arbitrary
/// finite values, mostly outside [0,1]. The property is stated per component, so mates must not
/// influence the checked component.
fn pack_mates(vals: &[f32], seed: u64) -> (Vec<[f32; 3]>, usize) {
    let mut e = Expand(seed ^ 0x3A7E5);
    let specials = [-1.0f32, -0.25, -1e-3, 1.0 + 1e-3, 1.25, 2.0, 10.0, -10.0, 0.0, 1.0];
    let px = vals
        .iter()
        .enumerate()
        .map(|(i, v)| {
            let mut p = [0f32; 3];
            for (j, c) in p.iter_mut().enumerate() {
                *c = if j == i % 3 {
                    *v
                } else if e.below(2) == 0 {
                    *e.pick(&specials)
                } else {
                    e.range_f64(-1.0, 3.0) as f32
                };
            }
            p
        })
        .collect::<Vec<_>>();
    let n = px.len();
    (px, n)
}
fn unpack_mates(px: &[[f32; 3]]) -> Vec<f32> {
    px.iter().enumerate().map(|(i, p)| p[i % 3]).collect()
}

pub fn lib_apply_mates(t: TC, d: Dir, vals: &[f32], seed: u64) -> Result<Vec<f32>, String> {
    let (px, n) = pack_mates(vals, seed);
    match d {
        Dir::ToLinear => {
            let rgb = Rgb::new(px, n, 1, t, CP::BT709).map_err(|e| format!("Rgb::new: {e:?}"))?;
            let l = LinearRgb::try_from(rgb).map_err(|e| format!("to_linear({}) failed: {e:?}", tc_name(t)))?;
            Ok(unpack_mates(l.data()))
        }
        Dir::ToGamma => {
            let l = LinearRgb::new(px, n, 1).map_err(|e| format!("LinearRgb::new: {e:?}"))?;
            let rgb = Rgb::try_from((l, t, CP::BT709)).map_err(|e| format!("to_gamma({}) failed: {e:?}", tc_name(t)))?;
            Ok(unpack_mates(rgb.data()))
        }
    }
}

pub fn lib_to_linear(t: TC, vals: &[f32]) -> Result<Vec<f32>, String> {
    let (px, n) = pack(vals);
    let rgb = Rgb::new(px, n, 1, t, CP::BT709).map_err(|e| format!("Rgb::new: {e:?}"))?;
    let l = LinearRgb::try_from(rgb).map_err(|e| format!("to_linear({}) failed: {e:?}", tc_name(t)))?;
    if l.width() != n || l.height() != 1 || l.data().len() != n {
        return Err(format!("dimensions changed: {}x{}", l.width(), l.height()));
    }
    Ok(unpack(l.data(), vals.len()))
}
pub fn lib_to_gamma(t: TC, vals: &[f32]) -> Result<Vec<f32>, String> {
    let (px, n) = pack(vals);
    let l = LinearRgb::new(px, n, 1).map_err(|e| format!("LinearRgb::new: {e:?}"))?;
    let rgb = Rgb::try_from((l, t, CP::BT709)).map_err(|e| format!("to_gamma({}) failed: {e:?}", tc_name(t)))?;
    if rgb.width() != n || rgb.height() != 1 || rgb.data().len() != n {
        return Err(format!("dimensions changed: {}x{}", rgb.width(), rgb.height()));
    }
    if rgb.transfer() != t || rgb.primaries() != CP::BT709 {
        return Err(format!("labels changed: {:?} {:?}", rgb.transfer(), rgb.primaries()));
    }
    Ok(unpack(rgb.data(), vals.len()))
}
pub fn lib_apply(t: TC, d: Dir, vals: &[f32]) -> Result<Vec<f32>, String> {
    match d {
        Dir::ToLinear => lib_to_linear(t, vals),
        Dir::ToGamma => lib_to_gamma(t, vals),
    }
}

/// values where some curve branches (either direction)
pub fn thresholds() -> Vec<f32> {
    let beta = oracle::G709_BETA;
    let mut v: Vec<f64> = vec![
        0.0,
        1.0,
        beta,
        4.5 * beta,
        0.0031308,
        0.04045,
        0.003_041_282_5,
        12.92 * 0.003_041_282_5,
        0.01,
        10f64.sqrt() / 1000.0,
        1.0 / 12.0,
        0.5,
        0.0003024,
        beta / 59.5,
        0.081,
        0.018,
        // where the PQ EOTF leaves zero: x^(1/m2) = c1
        oracle::PQ_C1.powf(oracle::PQ_M2),
    ];
    v.sort_by(|a, b| a.partial_cmp(b).unwrap());
    v.into_iter().map(|x| x as f32).collect()
}

/// strata over [0,1]: 0 uniform in value; 1 uniform in bit pattern; 2 +-64 ulp around thresholds;
/// 3 powers of two and neighbours; 4 tiny (subnormal .. 1e-30); 5 dense near 1
pub fn expand_unit(stratum: u8, seed: u64, n: usize) -> Vec<f32> {
    let mut e = Expand(seed);
    let one = 1.0f32.to_bits() as u64;
    let th = thresholds();
    let mut out = Vec::with_capacity(n);
    for _ in 0..n {
        let x = match stratum % 6 {
            0 => e.unit() as f32,
            1 => f32::from_bits(e.below(one + 1) as u32),
            2 => {
                let t = *e.pick(&th);
                let d = e.below(129) as i64 - 64;
                f32::from_bits((t.to_bits() as i64 + d).clamp(0, one as i64) as u32)
            }
            3 => {
                let ex = e.below(127) as i32; // 2^-126 .. 2^0
                let p = 2f32.powi(-ex);
                let d = e.below(9) as i64 - 4;
                f32::from_bits((p.to_bits() as i64 + d).clamp(0, one as i64) as u32)
            }
            4 => f32::from_bits(e.below(0x0D00_0000) as u32),
            _ => f32::from_bits((one - e.below(1 << 16)) as u32),
        };
        out.push(if x.is_nan() || x < 0.0 { 0.0 } else if x > 1.0 { 1.0 } else { x });
    }
    out
}

#[derive(Debug, Clone)]
pub struct Case {
    pub t: TC,
    pub dir: Dir,
    pub vals: Vals,
    /// Some(seed): one checked value per pixel, the other two components are out-of-range "mates"
    pub mates: Option<u64>,
}
#[derive(Debug, Clone)]
pub enum Vals {
    Seeded { stratum: u8, seed: u64, n: usize },
    Explicit(Vec<f32>),
}
impl Case {
    pub fn values(&self) -> Vec<f32> {
        match &self.vals {
            Vals::Seeded { stratum, seed, n } if *stratum >= 16 => {
                // banded image: every value on one side of a curve threshold t (band index = stratum - 16: even = [t,1],
                // odd = [0,t]), half of the values within a factor of 16 of t. Whole-image predicates ("no value on the
                // linear toe") hold on such images and on no uniformly filled one.
                let th = thresholds();
                let bi = (*stratum - 16) as usize;
                let t = th[(bi / 2) % th.len()] as f64;
                let mut e = Expand(*seed);
                (0..*n)
                    .map(|_| {
                        let near = e.below(2) == 0;
                        let x = if bi % 2 == 0 {
                            let hi = if near { (t * 16.0).min(1.0) } else { 1.0 };
                            t + (hi - t) * e.unit()
                        } else {
                            let lo = if near { t / 16.0 } else { 0.0 };
                            lo + (t - lo) * e.unit()
                        };
                        (x as f32).clamp(0.0, 1.0)
                    })
                    .map(|x| if bi % 2 == 0 { x.max(t as f32) } else { x.min(t as f32) })
                    .collect()
            }
            Vals::Seeded { stratum, seed, n } => match stratum % 9 {
                6 => {
                    // feedback chain: each value is the library's own result for the previous one, so that
                    // neighbouring components in memory are (input, previous output) pairs
                    let mut e = Expand(*seed);
                    let mut v = Vec::with_capacity(*n);
                    let mut x = e.unit() as f32;
                    for i in 0..*n {
                        v.push(x);
                        let y = lib_apply(self.t, self.dir, &[x]).ok().map(|o| o[0]).unwrap_or(f32::NAN);
                        x = if y.is_finite() && (0.0..=1.0).contains(&y) && i % 16 != 15 { y } else { e.unit() as f32 };
                    }
                    v
                }
                8 => {
                    // one-sided image with outliers at its ends: everything in the upper (or lower) part of the
                    // range except the first / last few samples (whole-buffer pre-scans must look at every sample)
                    let mut e = Expand(*seed);
                    let n = (*n).max(8) * 11 + 4099 + e.below(7) as usize;
                    let high = e.below(2) == 0;
                    let mut v: Vec<f32> = (0..n).map(|_| if high { e.range_f64(0.3, 1.0) as f32 } else { e.range_f64(0.0, 0.002) as f32 }).collect();
                    let k = 1 + e.below(7) as usize;
                    for i in 0..k {
                        let o = if high { e.range_f64(0.0, 0.002) as f32 } else { e.range_f64(0.3, 1.0) as f32 };
                        if e.below(4) == 0 {
                            v[i] = o;
                        } else {
                            v[n - 1 - i] = o;
                        }
                    }
                    v
                }
                7 => {
                    // runs of repeated values
                    let mut e = Expand(*seed);
                    let mut v = Vec::with_capacity(*n);
                    while v.len() < *n {
                        let x = if e.below(3) == 0 { *e.pick(&thresholds()) } else { e.unit() as f32 };
                        for _ in 0..=e.below(4) {
                            if v.len() < *n {
                                v.push(x.clamp(0.0, 1.0));
                            }
                        }
                    }
                    v
                }
                _ => expand_unit(*stratum, *seed, *n),
            },
            Vals::Explicit(v) => v.clone(),
        }
    }
    pub fn apply(&self, vals: &[f32]) -> Result<Vec<f32>, String> {
        match self.mates {
            Some(s) => lib_apply_mates(self.t, self.dir, vals, s),
            None => lib_apply(self.t, self.dir, vals),
        }
    }
    pub fn json_with(&self, prop: &str, vals: &[f32]) -> Value {
        if vals.len() > 8192 {
            if let Vals::Seeded { stratum, seed, n } = &self.vals {
                return json!({"prop": prop, "transfer": tc_name(self.t), "dir": if self.dir == Dir::ToLinear {"to_linear"} else {"to_gamma"},
                    "mates": self.mates.map(|m| m.to_string()), "seeded": {"stratum": stratum, "seed": seed.to_string(), "n": n}});
            }
        }
        json!({"prop": prop, "transfer": tc_name(self.t), "dir": if self.dir == Dir::ToLinear {"to_linear"} else {"to_gamma"},
               "mates": self.mates.map(|m| m.to_string()),
               "values": vals.iter().map(|v| f2j(*v)).collect::<Vec<_>>()})
    }
    pub fn from_json(v: &Value) -> Option<Case> {
        Some(Case {
            t: tc_from_name(v.get("transfer")?.as_str()?)?,
            dir: if v.get("dir")?.as_str()? == "to_linear" { Dir::ToLinear } else { Dir::ToGamma },
            vals: match v.get("seeded") {
                Some(sd) => Vals::Seeded { stratum: sd.get("stratum")?.as_u64()? as u8, seed: sd.get("seed")?.as_str()?.parse().ok()?, n: sd.get("n")?.as_u64()? as usize },
                None => Vals::Explicit(v.get("values")?.as_array()?.iter().filter_map(j2f).collect()),
            },
            mates: v.get("mates").and_then(|m| m.as_str()).and_then(|m| m.parse().ok()),
        })
    }
}

pub fn strategy() -> BoxedStrategy<Case> {
    (sup_transfer(), any::<bool>(), 0u8..9, any::<u64>(), 1usize..=768, prop::bool::weighted(0.25))
        .prop_map(|(t, d, stratum, seed, n, mates)| Case {
            t,
            dir: if d { Dir::ToLinear } else { Dir::ToGamma },
            vals: Vals::Seeded { stratum, seed, n: if stratum % 9 == 6 { n.min(96) } else { n } },
            mates: if mates && stratum % 9 != 8 { Some(seed) } else { None },
        })
        .boxed()
}

pub fn reference(t: TC, d: Dir, x: f32) -> f64 {
    match d {
        Dir::ToLinear => oracle::to_linear(t, x as f64),
        Dir::ToGamma => oracle::to_gamma(t, x as f64),
    }
}

pub fn check(case: &Case, st: &mut Stats) -> Result<(), Violation> {
    check_named("C03", case, st)
}

pub fn check_named(prop: &str, case: &Case, st: &mut Stats) -> Result<(), Violation> {
    let vals = case.values();
    let (t, d) = (case.t, case.dir);
    let sig = format!("{prop}:curve:{}:{}", tc_name(t), if d == Dir::ToLinear { "to_linear" } else { "to_gamma" });
    let fail = |msg: String, vals: &[f32]| Violation { signature: sig.clone(), message: msg, case: case.json_with(prop, vals) };
    if vals.len() >= 4096 {
        // for a third of the larger images the previous call on this thread converts a permutation of the same values
        if let Some(k) = prior_perm_kind(vals.iter().map(|v| v.to_bits()), vals.len()) {
            let q = permuted(&vals, k, 0);
            let _ = catch(|| case.apply(&q));
            st.class("preceded_by_a_permutation_of_the_same_image", 1);
        }
    }
    let got = match catch(|| case.apply(&vals)) {
        Err(p) => return Err(fail(format!("panic: {p}"), &vals)),
        Ok(Err(e)) => return Err(fail(e, &vals)),
        Ok(Ok(g)) => g,
    };
    st.evaluations += 1;
    let tol = tolerance(t, d);
    let mut nontrivial = false;
    if t == TC::Linear {
        for (x, g) in vals.iter().zip(&got) {
            if x.to_bits() != g.to_bits() {
                return Err(fail(format!("Linear is not the bit-exact identity: {:e} -> {:e}", x, g), &[*x]));
            }
        }
        nontrivial = vals.iter().any(|x| *x > 0.0 && *x < 1.0);
    } else {
        for (x, g) in vals.iter().zip(&got) {
            let want = reference(t, d, *x);
            let diff = (f64::from(*g) - want).abs();
            if !(diff < tol) {
                let bad = |q: f32| -> bool {
                    match lib_apply(t, d, &[q]) {
                        Ok(o) => !((f64::from(o[0]) - reference(t, d, q)).abs() < tol),
                        Err(_) => false,
                    }
                };
                if !bad(*x) {
                    // correct on its own: the failure depends on the neighbouring values of the image
                    let i = vals.iter().position(|v| v.to_bits() == x.to_bits()).unwrap_or(0);
                    let lo = i.saturating_sub(3);
                    return Err(Violation {
                        signature: sig.clone(),
                        message: format!("{} {:?}: x={:e} converts correctly alone but gives {:e} inside this image (formula {:e}); neighbouring values {:?}; pixel mates: {:?}", tc_name(t), d, x, g, want, &vals[lo..(i + 2).min(vals.len())], case.mates),
                        case: case.json_with(prop, &vals),
                    });
                }
                let small = minimize_f32(*x, 0.0, 1.0, bad);
                if small != *x {
                    let o = lib_apply(t, d, &[small]).map(|o| o[0]).unwrap_or(f32::NAN);
                    return Err(fail(
                        format!("{} {:?} at x={:e} (shrunk from {:e}): got {:e}, defining formula gives {:e} (tolerance {:e})", tc_name(t), d, small, x, o, reference(t, d, small), tol),
                        &[small],
                    ));
                }
                return Err(fail(
                    format!("{} {:?} at x={:e}: got {:e}, defining formula gives {:e} (|diff| {:e} >= {:e})", tc_name(t), d, x, g, want, diff, tol),
                    &[*x],
                ));
            }
            st.max(&format!("err_{}_{}", tc_name(t), if d == Dir::ToLinear { "lin" } else { "gam" }), diff);
            if *x > 0.0 && *x < 1.0 {
                nontrivial = true;
            }
            if *x < f32::MIN_POSITIVE && *x > 0.0 {
                st.class("subnormal_input", 1);
            }
        }
        if is_1886_alias(t) {
            let base = match catch(|| lib_apply(TC::BT1886, d, &vals)) {
                Ok(Ok(b)) => b,
                other => return Err(fail(format!("BT1886 reference run failed: {other:?}"), &vals)),
            };
            for (i, (a, b)) in got.iter().zip(&base).enumerate() {
                if a.to_bits() != b.to_bits() {
                    return Err(fail(format!("alias {} differs bitwise from BT1886 at x={:e}: {:e} vs {:e}", tc_name(t), vals[i], a, b), &[vals[i]]));
                }
            }
            st.class("alias_bitwise_comparisons", vals.len() as u64);
        }
    }
    st.comparisons += vals.len() as u64;
    st.class(&format!("curve_{}", tc_name(t)), 1);
    st.class(if d == Dir::ToLinear { "dir_to_linear" } else { "dir_to_gamma" }, 1);
    if let Vals::Seeded { stratum, .. } = case.vals {
        st.class(&format!("stratum_{}", stratum % 9), 1);
        if case.mates.is_some() {
            st.class("with_out_of_range_pixel_mates", 1);
        }
    }
    if nontrivial {
        let bits: Vec<u32> = vals.iter().map(|v| v.to_bits()).collect();
        st.nontrivial(&(tc_name(t), d, bits));
    }
    st.sample(|| case.json_with(prop, &vals[..vals.len().min(6)]));
    Ok(())
}

/// Strided or complete enumeration of all f32 in [0,1] for every curve and direction.
/// `stride` = 1 enumerates all 1,065,353,217 values.
pub fn sweep(ctx: &Ctx, st: &mut Stats, prop: &'static str, stride: u64, chk: fn(&str, &Case, &mut Stats) -> Result<(), Violation>, dirs: &[Dir]) -> Vec<Violation> {
    let one = 1.0f32.to_bits() as u64;
    let count = one / stride + 1;
    let block: u64 = 1 << 16;
    let nblocks = (count + block - 1) / block;
    let mut jobs = Vec::new();
    for t in SUP_TC {
        for &d in dirs {
            jobs.push((t, d));
        }
    }
    let total = jobs.len() as u64 * nblocks;
    let offset = if stride > 1 { ctx.seed % stride } else { 0 };
    par_sweep(ctx, st, total, |lo, hi, st| {
        for idx in lo..hi {
            let (t, d) = jobs[(idx / nblocks) as usize];
            let b = idx % nblocks;
            let start = b * block;
            let end = ((b + 1) * block).min(count);
            let mut vals = Vec::with_capacity((end - start) as usize);
            for i in start..end {
                let bits = (i * stride + offset).min(one);
                vals.push(f32::from_bits(bits as u32));
            }
            if b + 1 == nblocks {
                vals.push(1.0);
            }
            let case = Case { t, dir: d, vals: Vals::Explicit(vals), mates: None };
            let mut local = Stats::new();
            local.sample_budget = 0;
            if let Err(v) = chk(prop, &case, &mut local) {
                return Some(v);
            }
            st.evaluations += 1;
            st.comparisons += local.comparisons;
            st.nontrivial_by_construction += 1;
            st.class("sweep_blocks", 1);
            for (k, v) in local.maxima {
                st.max(&k, v);
            }
        }
        None
    })
}

/// The values real video feeds to the curves: every code of the 8-, 10- and 12-bit grids k/(2^n-1) and of the
/// limited-range grids (k-16s)/(219s), the 16-bit grid, and the library's own decode of the grey ramps at those
/// depths (its f32 arithmetic may round differently). Tables indexed by code value are exact on these and nowhere else.
pub fn code_grid_values() -> Vec<f32> {
    let mut v: Vec<f32> = Vec::new();
    for n in [8u32, 10, 12, 16] {
        let max = (1u32 << n) - 1;
        for k in 0..=max {
            v.push(k as f32 / max as f32);
            v.push((k as f64 / max as f64) as f32);
            if n <= 12 {
                let s = (1u32 << (n - 8)) as f32;
                v.push(((k as f32 - 16.0 * s) / (219.0 * s)).clamp(0.0, 1.0));
            }
        }
        if n <= 12 {
            for full in [false, true] {
                let c = crate::api::cfg(yuvxyb::MatrixCoefficients::BT709, TC::BT1886, CP::BT709, n as u8, full, (0, 0));
                let half = 1u16 << (n - 1);
                let codes: Vec<[u16; 3]> = (0..=max).map(|k| [k as u16, half, half]).collect();
                if let Ok(y) = yuvxyb::Yuv::<u16>::new(crate::api::frame444::<u16>(&codes, codes.len(), 1, 0, 0), c) {
                    if let Ok(r) = Rgb::try_from(&y) {
                        v.extend(r.data().iter().map(|p| p[1]).filter(|x| (0.0..=1.0).contains(x)));
                    }
                }
            }
        }
    }
    v.sort_by(|a, b| a.partial_cmp(b).unwrap());
    v.dedup_by(|a, b| a.to_bits() == b.to_bits());
    v
}

pub fn code_grids(ctx: &Ctx, st: &mut Stats, prop: &'static str, chk: fn(&str, &Case, &mut Stats) -> Result<(), Violation>, dirs: &[Dir]) -> Vec<Violation> {
    let vals = code_grid_values();
    let mut jobs = Vec::new();
    for t in SUP_TC.iter() {
        for &d in dirs {
            for c in 0..vals.len().div_ceil(8192) {
                jobs.push((*t, d, c));
            }
        }
    }
    let _ = ctx;
    par_sweep(ctx, st, jobs.len() as u64, |lo, hi, st| {
        for j in lo..hi {
            let (t, d, c) = jobs[j as usize];
            let chunk = vals[c * 8192..((c + 1) * 8192).min(vals.len())].to_vec();
            let n = chunk.len() as u64;
            let case = Case { t, dir: d, vals: Vals::Explicit(chunk), mates: None };
            let mut local = Stats::new();
            local.sample_budget = 0;
            if let Err(v) = chk(prop, &case, &mut local) {
                return Some(v);
            }
            st.evaluations += 1;
            st.comparisons += n;
            st.nontrivial_by_construction += 1;
            st.class("code_grid_blocks", 1);
        }
        None
    })
}

/// one banded image (see `Case::values`, strata >= 16) of 65,537 pixels (thorough: also 262,147) per curve, direction,
/// threshold and side
pub fn banded_images(ctx: &Ctx, st: &mut Stats, prop: &'static str, chk: fn(&str, &Case, &mut Stats) -> Result<(), Violation>, dirs: &[Dir]) -> Vec<Violation> {
    if ctx.light {
        return Vec::new();
    }
    let nb = thresholds().len() * 2;
    let sizes: Vec<usize> = if ctx.quick() { vec![65_537] } else { vec![65_537, 262_147] };
    let mut jobs = Vec::new();
    for t in SUP_TC.iter() {
        for &d in dirs {
            for b in 0..nb {
                for &n in &sizes {
                    jobs.push((*t, d, b, n));
                }
            }
        }
    }
    let seed0 = ctx.seed;
    par_sweep(ctx, st, jobs.len() as u64, |lo, hi, st| {
        for j in lo..hi {
            let (t, d, b, n) = jobs[j as usize];
            let case = Case { t, dir: d, vals: Vals::Seeded { stratum: 16 + b as u8, seed: mix64(seed0 ^ j ^ 0xBA4D), n: n * 3 }, mates: None };
            let mut local = Stats::new();
            local.sample_budget = 0;
            if let Err(v) = chk(prop, &case, &mut local) {
                return Some(v);
            }
            st.evaluations += 1;
            st.comparisons += local.comparisons;
            st.nontrivial_by_construction += 1;
            st.class("banded_images", 1);
        }
        None
    })
}

/// images of 65536+ pixels (size-gated / threaded paths) for every curve and direction: pixel counts that
/// are divisible by no small number, and the standard UHD / 4K / 8K frame sizes
pub fn large_images(ctx: &Ctx, st: &mut Stats, prop: &'static str, chk: fn(&str, &Case, &mut Stats) -> Result<(), Violation>, dirs: &[Dir]) -> Vec<Violation> {
    let curves: Vec<TC> = if ctx.light { vec![TC::BT1886, TC::SRGB, TC::PerceptualQuantizer, TC::HybridLogGamma] } else { SUP_TC.to_vec() };
    // every (curve, direction) gets one image of a rotating odd size, one UHD-1 frame (3840x2160: where "large
    // frame" paths typically switch on) and, in the thorough tier, a DCI 4K frame; every third one an 8K frame
    const UHD: usize = 3840 * 2160;
    let small: [usize; 4] = if ctx.quick() { [65_537, 131_101, 262_147, 4_194_307] } else { [65_537, 262_147, 4_194_307, 8_300_401] };
    let mut jobs = Vec::new();
    for (i, t) in curves.iter().enumerate() {
        for (k, &d) in dirs.iter().enumerate() {
            let idx = i * dirs.len() + k;
            jobs.push((*t, d, small[idx % 4]));
            if !ctx.light {
                jobs.push((*t, d, UHD));
                // an odd count above 2^23: every curve in the thorough tier, a rotating quarter in the quick tier
                if !ctx.quick() || idx % 4 == (ctx.seed % 4) as usize {
                    jobs.push((*t, d, 2897 * 2897));
                }
                if !ctx.quick() {
                    jobs.push((*t, d, 4096 * 2160));
                    if idx % 3 == 0 {
                        jobs.push((*t, d, 7680 * 4320));
                    }
                    if idx % 3 == 1 {
                        jobs.push((*t, d, 4097 * 4097));
                    }
                }
            }
        }
    }
    let seed0 = ctx.seed;
    par_sweep(ctx, st, jobs.len() as u64, |lo, hi, st| {
        for j in lo..hi {
            let (t, d, pixels) = jobs[j as usize];
            let case = Case { t, dir: d, vals: Vals::Seeded { stratum: (j % 2) as u8, seed: mix64(seed0 ^ j ^ 0xB16), n: pixels * 3 }, mates: None };
            let mut local = Stats::new();
            local.sample_budget = 0;
            if let Err(v) = chk(prop, &case, &mut local) {
                return Some(v);
            }
            st.evaluations += 1;
            st.comparisons += local.comparisons;
            st.nontrivial_by_construction += 1;
            st.class("large_images", 1);
        }
        None
    })
}

pub fn run(ctx: &Ctx, st: &mut Stats) -> Vec<Violation> {
    let mut v = run_proptest(ctx, st, "random", ctx.cases(12_000, 120_000), strategy, check);
    if !v.is_empty() {
        return v;
    }
    v.extend(large_images(ctx, st, "C03", check_named, &[Dir::ToLinear, Dir::ToGamma]));
    if !v.is_empty() {
        return v;
    }
    v.extend(super::soak::run(ctx, st, "C03", soak_jobs(ctx)));
    if !v.is_empty() {
        return v;
    }
    v.extend(code_grids(ctx, st, "C03", check_named, &[Dir::ToLinear, Dir::ToGamma]));
    if !v.is_empty() {
        return v;
    }
    v.extend(banded_images(ctx, st, "C03", check_named, &[Dir::ToLinear, Dir::ToGamma]));
    if !v.is_empty() {
        return v;
    }
    let stride = if ctx.light { 1021 } else { ctx.pick(257, 1) };
    v.extend(sweep(ctx, st, "C03", stride, check_named, &[Dir::ToLinear, Dir::ToGamma]));
    if stride == 1 && v.is_empty() {
        st.exhaustive_parts.push("ALL: every f32 in [0,1] (1,065,353,217 values) x 14 curves x 2 directions".into());
    } else {
        st.notes.push(format!("strided enumeration of [0,1]: every {stride}th f32 bit pattern (offset VERIF_SEED mod stride) per curve and direction"));
    }
    v
}

/// long single-thread histories (soak.rs): neighbouring curves in the same direction, and the two directions of a curve
fn soak_jobs(ctx: &Ctx) -> Vec<super::soak::Job> {
    use super::soak::{with_periods, Side, PERIODS};
    use crate::conv::{Edge, Kind};
    let mk = |t: TC| crate::api::cfg(yuvxyb::MatrixCoefficients::BT709, t, yuvxyb::ColorPrimaries::BT709, 10, false, (0, 0));
    let mut jobs = Vec::new();
    for (i, t) in SUP_TC.iter().enumerate() {
        if ctx.light && i % 4 != 0 {
            continue;
        }
        let n = SUP_TC[(i + 1) % SUP_TC.len()];
        jobs.extend(with_periods(Side { kind: Kind::Rgb, edge: Edge::RgbToLin, cfg: mk(*t) }, Side { kind: Kind::Rgb, edge: Edge::RgbToLin, cfg: mk(n) }, &PERIODS));
        jobs.extend(with_periods(Side { kind: Kind::Lin, edge: Edge::LinToRgb, cfg: mk(*t) }, Side { kind: Kind::Lin, edge: Edge::LinToRgb, cfg: mk(n) }, &PERIODS));
        jobs.extend(with_periods(Side { kind: Kind::Rgb, edge: Edge::RgbToLin, cfg: mk(*t) }, Side { kind: Kind::Lin, edge: Edge::LinToRgb, cfg: mk(*t) }, &PERIODS));
    }
    jobs
}

pub fn replay(v: &Value) -> Result<(), String> {
    if v.get("part").and_then(|p| p.as_str()) == Some("soak") {
        return super::soak::replay("C03", v);
    }
    let case = Case::from_json(v).ok_or("bad case")?;
    check(&case, &mut Stats::new()).map_err(|v| v.message)
}

pub const RULE: &str = "cases = (curve in 14 supported, direction, batch of 1..768 values of [0,1] from 8 strata: uniform value, uniform bit pattern, +-64 ulp around every curve threshold, powers of two +-4 ulp, subnormal/tiny, dense below 1, feedback chain (each value is the library's result for the previous one), runs of repeated values, one-sided images of 4100+ samples with outliers at their ends; in a quarter of the cases each checked value sits in a pixel whose other two components are out-of-range mates) generated by proptest, plus one image of 65537 / 131101 / 262147 / 4194307 (thorough: 8300401) pixels per curve and direction, plus the complete code grids (every k/(2^n-1) and limited-range (k-16s)/(219s) at 8/10/12 bit, k/65535, and the library's own decode of the grey ramps: ~90,000 values per curve and direction), plus banded images (65,537 pixels, every value on one side of a curve threshold, for every threshold, side, curve and direction), a prior call on a permutation of the same values for a third of the images of 4096+ values, plus long single-thread call histories (periods 255, 256, 65535, 65536: the same value under neighbouring curves / the other direction exactly one period later must still convert like inside a whole image), plus a strided (quick) or complete (thorough) enumeration of all f32 in [0,1] in blocks of 65536; each value compared with the f64 defining formula (tol 2.5e-4; PQ to_gamma 5.7e-4; builds without fastmath 5e-5), Linear and BT.1886 aliases compared bitwise; non-trivial = batch containing a value strictly inside (0,1); distinct = by hash of (curve, direction, value bits)";
