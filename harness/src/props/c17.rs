//! C17 HSL conversion follows the hexcone model, stays in range and round-trips.

use crate::engine::*;
use crate::oracle;
use proptest::prelude::*;
use serde_json::{json, Value};
use yuvxyb::{Hsl, LinearRgb};

#[derive(Debug, Clone)]
pub struct Case {
    /// true: LinearRgb -> Hsl (+ round trip); false: Hsl{L in {0,1}} -> LinearRgb anchors
    pub forward: bool,
    pub w: usize,
    pub h: usize,
    pub px: Px,
}
#[derive(Debug, Clone)]
pub enum Px {
    Seeded { stratum: u8, seed: u64 },
    Explicit(Vec<[f32; 3]>),
}

const PERMS: [[usize; 3]; 6] = [[0, 1, 2], [0, 2, 1], [1, 0, 2], [1, 2, 0], [2, 0, 1], [2, 1, 0]];

/// forward strata over [0,1]^3: 0 uniform; 1 by sextant (ordering chosen, then max/min/mid);
/// 2 near ties (mid = max - e / min + e); 3 greys and near-greys (chroma 1e-7..1e-2);
/// 4 extreme lightness (very dark / very bright); 5 lattice {0,0.5,1}; 6 exact two-channel ties
pub fn expand_rgb(stratum: u8, seed: u64, n: usize) -> Vec<[f32; 3]> {
    let mut e = Expand(seed);
    let mut out = Vec::with_capacity(n);
    for _ in 0..n {
        let p: [f64; 3] = match stratum % 7 {
            0 => [e.unit(), e.unit(), e.unit()],
            1 | 2 | 6 => {
                let perm = *e.pick(&PERMS);
                let a = e.unit();
                let b = e.unit();
                let (mx, mn) = if a > b { (a, b) } else { (b, a) };
                let mid = match stratum % 7 {
                    1 => mn + (mx - mn) * e.unit(),
                    2 => {
                        let eps = 10f64.powf(e.range_f64(-8.0, -2.0));
                        if e.below(2) == 0 {
                            (mx - eps).max(mn)
                        } else {
                            (mn + eps).min(mx)
                        }
                    }
                    _ => {
                        if e.below(2) == 0 {
                            mx
                        } else {
                            mn
                        }
                    }
                };
                let mut p = [0.0; 3];
                p[perm[0]] = mx;
                p[perm[1]] = mid;
                p[perm[2]] = mn;
                p
            }
            3 => {
                let g = e.unit();
                if e.below(3) == 0 {
                    [g, g, g]
                } else {
                    let c = 10f64.powf(e.range_f64(-7.0, -2.0));
                    let mut p = [g, g, g];
                    p[e.below(3) as usize] = (g + c * (e.unit() * 2.0 - 1.0)).clamp(0.0, 1.0);
                    p[e.below(3) as usize] = (g + c * (e.unit() * 2.0 - 1.0)).clamp(0.0, 1.0);
                    p
                }
            }
            4 => {
                let s = 10f64.powf(e.range_f64(-9.0, -5.0));
                let dark = e.below(2) == 0;
                let mut p = [s * e.unit(), s * e.unit(), s * e.unit()];
                if e.below(4) == 0 {
                    p[e.below(3) as usize] = 0.0;
                }
                if !dark {
                    p = [1.0 - p[0], 1.0 - p[1], 1.0 - p[2]];
                }
                p
            }
            _ => {
                let l = [0.0, 0.5, 1.0];
                [*e.pick(&l), *e.pick(&l), *e.pick(&l)]
            }
        };
        out.push([(p[0] as f32).clamp(0.0, 1.0), (p[1] as f32).clamp(0.0, 1.0), (p[2] as f32).clamp(0.0, 1.0)]);
    }
    out
}

/// reverse anchors: H in [0,360) (uniform, multiples of 60, just below 360), S in [0,1], L in {0,1}
pub fn expand_hsl_anchor(seed: u64, n: usize) -> Vec<[f32; 3]> {
    let mut e = Expand(seed);
    let mut out = Vec::with_capacity(n);
    for _ in 0..n {
        let h = match e.below(4) {
            0 => 60.0 * e.below(6) as f32,
            1 => f32::from_bits(360.0f32.to_bits() - 1 - e.below(8) as u32),
            _ => (e.unit() * 360.0) as f32,
        };
        let s = match e.below(4) {
            0 => 0.0,
            1 => 1.0,
            _ => e.unit() as f32,
        };
        let l = if e.below(2) == 0 { 0.0 } else { 1.0 };
        out.push([h.min(f32::from_bits(360.0f32.to_bits() - 1)), s, l]);
    }
    out
}

impl Case {
    pub fn pixels(&self) -> Vec<[f32; 3]> {
        match &self.px {
            Px::Seeded { stratum, seed } => {
                if self.forward {
                    let mut px = expand_rgb(*stratum, *seed, self.w * self.h);
                    if seed % 3 == 0 {
                        // related neighbours; feedback = the library's HSL triple of the previous pixel reused as RGB
                        let fb = |p: [f32; 3]| -> Option<[f32; 3]> { LinearRgb::new(vec![p], 1, 1).ok().map(|l| Hsl::from(l).data()[0]) };
                        let dom = |p: [f32; 3]| -> bool { p.iter().all(|x| x.is_finite() && *x >= 0.0 && *x <= 1.0) };
                        correlate_px(&mut px, *seed, Some(&fb), &dom);
                    }
                    if seed % 4 == 1 {
                        let fb = |p: [f32; 3]| -> Option<[f32; 3]> { LinearRgb::new(vec![p], 1, 1).ok().map(|l| Hsl::from(l).data()[0]) };
                        let dom = |p: [f32; 3]| -> bool { p.iter().all(|x| x.is_finite() && *x >= 0.0 && *x <= 1.0) };
                        correlate_rows(&mut px, self.w, self.h, *seed, &fb, &dom);
                    }
                    px
                } else {
                    expand_hsl_anchor(*seed, self.w * self.h)
                }
            }
            Px::Explicit(v) => v.clone(),
        }
    }
    fn json_with(&self, px: &[[f32; 3]], w: usize, h: usize) -> Value {
        json!({"prop":"C17","forward":self.forward,"w":w,"h":h,"pixels": px.iter().map(|p| px2j(*p)).collect::<Vec<_>>()})
    }
}

pub fn strategy() -> BoxedStrategy<Case> {
    (prop::bool::weighted(0.85), 0u8..7, any::<u64>(), 1usize..=32, 1usize..=8)
        .prop_map(|(forward, stratum, seed, w, h)| {
            let (w, h) = if seed % 4 == 1 { shape_from(seed, 32, 8) } else { (w, h) };
            Case { forward, w, h, px: Px::Seeded { stratum, seed } }
        })
        .boxed()
}

fn circ(a: f64, b: f64) -> f64 {
    let d = (a - b).rem_euclid(360.0);
    d.min(360.0 - d)
}

/// signature of a forward violation: which clause failed
pub fn check(case: &Case, st: &mut Stats) -> Result<(), Violation> {
    let px = case.pixels();
    let fail = |sig: &str, msg: String, p: &[[f32; 3]], w: usize, h: usize| Violation {
        signature: format!("C17:{sig}"),
        message: msg,
        case: case.json_with(p, w, h),
    };
    if let Some(k) = prior_perm_kind(px.iter().flat_map(|p| p.iter().map(|c| c.to_bits())), px.len()) {
        // the previous call on this thread converts a permutation of the same pixels (result ignored)
        let q = permuted(&px, k, case.w);
        let fwd = case.forward;
        let (w, h) = (case.w, case.h);
        let _ = catch(move || if fwd { LinearRgb::new(q, w, h).map(|l| LinearRgb::from(Hsl::from(l))).map(|_| ()) } else { Hsl::new(q, w, h).map(LinearRgb::from).map(|_| ()) });
        st.class("preceded_by_a_permutation_of_the_same_image", 1);
    }
    if !case.forward {
        let res = catch(|| Hsl::new(px.clone(), case.w, case.h).map(LinearRgb::from));
        let rgb = match res {
            Err(p) => return Err(fail("panic", format!("panic: {p}"), &px, case.w, case.h)),
            Ok(Err(e)) => return Err(fail("ctor", format!("{e:?}"), &px, case.w, case.h)),
            Ok(Ok(r)) => r,
        };
        st.evaluations += 1;
        if rgb.width() != case.w || rgb.height() != case.h {
            return Err(fail("dims", "dimensions changed".into(), &px, case.w, case.h));
        }
        for (i, p) in px.iter().enumerate() {
            let want = if p[2] == 0.0 { 0.0f32 } else { 1.0 };
            for j in 0..3 {
                if !((rgb.data()[i][j] - want).abs() <= 1e-6) {
                    return Err(fail("anchor", format!("HSL {:?} (L={}) converts to {:?}, not {}", p, p[2], rgb.data()[i], if want == 0.0 { "black" } else { "white" }), &[*p], 1, 1));
                }
            }
        }
        st.comparisons += px.len() as u64;
        st.class("reverse_anchor_cases", 1);
        let bits: Vec<[u32; 3]> = px.iter().map(|p| [p[0].to_bits(), p[1].to_bits(), p[2].to_bits()]).collect();
        st.nontrivial(&(false, bits));
        st.sample(|| case.json_with(&px[..px.len().min(3)], px.len().min(3), 1));
        return Ok(());
    }
    let res = catch(|| {
        // the LinearRgb object is either fresh or the result of an earlier Hsl -> LinearRgb conversion of a
        // grey image that was then painted over through data_mut(): only the pixel data may matter
        let paint = px.len() > 1 && (px[0][1].to_bits() ^ px[px.len() - 1][0].to_bits()) % 3 == 0;
        let l = if paint {
            let mut l = LinearRgb::from(Hsl::new(vec![[0.0f32, 0.0, 0.5]; px.len()], case.w, case.h).map_err(|e| format!("{e:?}"))?);
            l.data_mut().copy_from_slice(&px);
            l
        } else {
            LinearRgb::new(px.clone(), case.w, case.h).map_err(|e| format!("{e:?}"))?
        };
        let hsl = Hsl::from(l);
        let back = LinearRgb::from(hsl.clone());
        Ok::<_, String>((hsl, back))
    });
    let (hsl, back) = match res {
        Err(p) => return Err(fail("panic", format!("panic: {p}"), &px, case.w, case.h)),
        Ok(Err(e)) => return Err(fail("ctor", e, &px, case.w, case.h)),
        Ok(Ok(r)) => r,
    };
    st.evaluations += 1;
    if hsl.width() != case.w || hsl.height() != case.h || back.width() != case.w || back.height() != case.h || hsl.data().len() != px.len() {
        return Err(fail("dims", "dimensions changed".into(), &px, case.w, case.h));
    }
    let mut nontrivial = false;
    for (i, p) in px.iter().enumerate() {
        let g = hsl.data()[i];
        let (h, s, l, c) = oracle::hsl([p[0] as f64, p[1] as f64, p[2] as f64]);
        let (gh, gs, gl) = (g[0] as f64, g[1] as f64, g[2] as f64);
        if !(gh >= 0.0 && gh < 360.0) {
            return Err(fail("hue-range", format!("pixel {:?}: H = {:e} is outside [0,360) (hexcone hue {:.4})", p, g[0], h), &[*p], 1, 1));
        }
        if !(gs >= 0.0 && gs <= 1.0) {
            return Err(fail("sat-range", format!("pixel {:?}: S = {:e} is outside [0,1] (hexcone S {:.6}, L {:e})", p, g[1], s, l), &[*p], 1, 1));
        }
        if !(gl >= 0.0 && gl <= 1.0) {
            return Err(fail("light-range", format!("pixel {:?}: L = {:e} is outside [0,1]", p, g[2]), &[*p], 1, 1));
        }
        if !((gl - l).abs() <= 1e-6) {
            return Err(fail("light", format!("pixel {:?}: L = {:e}, hexcone gives {:e}", p, g[2], l), &[*p], 1, 1));
        }
        if (0.01..=0.99).contains(&l) {
            if !((gs - s).abs() <= 1e-4) {
                return Err(fail("sat", format!("pixel {:?}: S = {:e}, hexcone gives {:e}", p, g[1], s), &[*p], 1, 1));
            }
            st.max("max_s_err", (gs - s).abs());
        } else {
            st.class("extreme_lightness_pixels", 1);
        }
        if c >= 0.01 {
            let d = circ(gh, h);
            if !(d <= 0.01) {
                return Err(fail("hue", format!("pixel {:?}: H = {:e}, hexcone gives {:e} (circular diff {:e})", p, g[0], h, d), &[*p], 1, 1));
            }
            st.max("max_h_err_deg", d);
            nontrivial = true;
            st.class(&format!("sextant_{}", (h / 60.0) as u32 % 6), 1);
        } else if c == 0.0 {
            st.class("grey_pixels", 1);
        } else {
            st.class("near_grey_pixels", 1);
        }
        let b = back.data()[i];
        for j in 0..3 {
            let d = (f64::from(b[j]) - f64::from(p[j])).abs();
            if !(d <= 1e-5) {
                return Err(fail("roundtrip", format!("pixel {:?} -> HSL {:?} -> {:?}: component {j} off by {:e} > 1e-5", p, g, b, d), &[*p], 1, 1));
            }
            st.max("max_roundtrip_err", d);
        }
    }
    st.comparisons += px.len() as u64;
    if let Px::Seeded { stratum, .. } = case.px {
        st.class(&format!("stratum_{}", stratum % 7), 1);
    }
    if nontrivial {
        let bits: Vec<[u32; 3]> = px.iter().map(|p| [p[0].to_bits(), p[1].to_bits(), p[2].to_bits()]).collect();
        st.nontrivial(&(true, bits));
    }
    st.sample(|| case.json_with(&px[..px.len().min(3)], px.len().min(3), 1));
    Ok(())
}

pub fn run(ctx: &Ctx, st: &mut Stats) -> Vec<Violation> {
    let mut v = run_proptest(ctx, st, "random", ctx.cases(150_000, 20_000_000), strategy, check);
    if !v.is_empty() {
        return v;
    }
    // real-size images
    let sizes: Vec<(usize, usize)> = crate::gen::large_sizes(ctx.quick());
    let seed0 = ctx.seed;
    v.extend(par_sweep(ctx, st, sizes.len() as u64 * 2, |lo, hi, st| {
        for j in lo..hi {
            let (w, h) = sizes[(j / 2) as usize];
            let case = Case { forward: true, w, h, px: Px::Seeded { stratum: [0u8, 3][(j % 2) as usize], seed: mix64(seed0 ^ (j << 8) ^ 0x17) } };
            let mut local = Stats::new();
            local.sample_budget = 0;
            if let Err(v) = check(&case, &mut local) {
                return Some(v);
            }
            st.evaluations += 1;
            st.comparisons += (w * h) as u64;
            st.nontrivial_by_construction += 1;
            st.class("large_images", 1);
        }
        None
    }));
    if !v.is_empty() {
        return v;
    }
    // enumerated lattice on [0,1]^3
    let side: usize = ctx.pick(129, 256);
    v.extend(par_sweep(ctx, st, side as u64, |lo, hi, st| {
        for zi in lo..hi {
            let f = |i: usize| (i as f64 / (side - 1) as f64) as f32;
            let mut px = Vec::with_capacity(side * side);
            for yi in 0..side {
                for xi in 0..side {
                    px.push([f(xi), f(yi), f(zi as usize)]);
                }
            }
            let case = Case { forward: true, w: side, h: side, px: Px::Explicit(px) };
            let mut local = Stats::new();
            local.sample_budget = 0;
            if let Err(v) = check(&case, &mut local) {
                return Some(v);
            }
            st.evaluations += 1;
            st.comparisons += (side * side) as u64;
            st.nontrivial_by_construction += 1;
            st.class("lattice_slices", 1);
            for (k, v) in local.maxima {
                st.max(&k, v);
            }
        }
        None
    }));
    v
}

pub fn replay(v: &Value) -> Result<(), String> {
    let px: Vec<[f32; 3]> = v.get("pixels").and_then(|p| p.as_array()).ok_or("pixels")?.iter().filter_map(j2px).collect();
    let case = Case {
        forward: v.get("forward").and_then(|b| b.as_bool()).unwrap_or(true),
        w: v.get("w").and_then(|x| x.as_u64()).unwrap_or(px.len() as u64) as usize,
        h: v.get("h").and_then(|x| x.as_u64()).unwrap_or(1) as usize,
        px: Px::Explicit(px),
    };
    check(&case, &mut Stats::new()).map_err(|v| v.message)
}

pub const RULE: &str = "cases = w x h images of linear-RGB pixels of [0,1]^3 built by construction from 7 strata, a third of the images with related neighbours (equal / partly equal / rotated / fed-back pixels), single-pixel and tiny images over-represented (uniform; per-sextant: ordering of R,G,B chosen among the 6 permutations, then max/min/mid; near ties mid = max-e / min+e with e log-uniform 1e-8..1e-2; greys and near-greys with chroma 1e-7..1e-2; extreme lightness within 1e-5 of 0/1; lattice {0,.5,1}; exact two-channel ties), and HSL anchor images (H in [0,360) incl. multiples of 60 and 360-ulp, S in [0,1], L in {0,1}), generated by proptest, plus an enumerated RGB lattice; a third of the LinearRgb objects are produced by an earlier Hsl->LinearRgb conversion of a grey image and painted over through data_mut(); oracle = f64 hexcone model with the statement's tolerances and ranges, round trip within 1e-5, L=0 -> black, L=1 -> white; non-trivial = image with a pixel of chroma >= 0.01 (or any anchor image); distinct = by hash of pixel bits";
