//! C18 The fast math helpers meet their accuracy contracts on their whole domain.
//! (In builds without `fastmath` the same suite checks the C20 clause: within 2 ulp of libm.)

use crate::engine::*;
use crate::oracle::{self, ulp_err};
use proptest::prelude::*;
use serde_json::{json, Value};
use yuvxyb_math::{cbrtf, expf, powf};

pub const LIB_EXPONENTS: [f32; 12] = [
    2.4,
    1.0 / 2.4,
    2.2,
    1.0 / 2.2,
    2.8,
    1.0 / 2.8,
    0.45,
    1.0 / 0.45,
    0.159_301_76,
    78.84375,
    1.0 / 0.159_301_76,
    1.0 / 78.84375,
];

fn fast() -> bool {
    cfg!(feature = "fastmath")
}

#[derive(Debug, Clone)]
pub enum Case {
    Cbrt(Vec<f32>),
    Pow(Vec<(f32, f32)>),
    Exp(Vec<f32>),
    /// totality only: arbitrary bit patterns
    Total(Vec<(f32, f32)>),
}

fn case_json(c: &Case) -> Value {
    match c {
        Case::Cbrt(v) => json!({"prop":"C18","fn":"cbrtf","x": v.iter().map(|x| f2j(*x)).collect::<Vec<_>>()}),
        Case::Exp(v) => json!({"prop":"C18","fn":"expf","x": v.iter().map(|x| f2j(*x)).collect::<Vec<_>>()}),
        Case::Pow(v) => json!({"prop":"C18","fn":"powf","xy": v.iter().map(|(x,y)| json!([f2j(*x), f2j(*y)])).collect::<Vec<_>>()}),
        Case::Total(v) => json!({"prop":"C18","fn":"total","xy": v.iter().map(|(x,y)| json!([f2j(*x), f2j(*y)])).collect::<Vec<_>>()}),
    }
}
fn case_from_json(v: &Value) -> Option<Case> {
    let xs = || -> Option<Vec<f32>> { Some(v.get("x")?.as_array()?.iter().filter_map(j2f).collect()) };
    let xys = || -> Option<Vec<(f32, f32)>> {
        Some(v.get("xy")?.as_array()?.iter().filter_map(|p| Some((j2f(p.get(0)?)?, j2f(p.get(1)?)?))).collect())
    };
    Some(match v.get("fn")?.as_str()? {
        "cbrtf" => Case::Cbrt(xs()?),
        "expf" => Case::Exp(xs()?),
        "powf" => Case::Pow(xys()?),
        _ => Case::Total(xys()?),
    })
}

pub fn check_cbrt_one(x: f32) -> Result<f64, String> {
    let g = cbrtf(x);
    let exact = (x as f64).cbrt();
    let e = ulp_err(g, exact);
    let lim = if fast() { 1.0 } else { 2.0 };
    if !(e <= lim) {
        return Err(format!("cbrtf({:e}) = {:e}, true cube root {:e}: {:.3} ulp > {}", x, g, exact, e, lim));
    }
    let gn = cbrtf(-x);
    if gn.to_bits() != (-g).to_bits() {
        return Err(format!("cbrtf is not odd at {:e}: cbrtf(-x) = {:e}, -cbrtf(x) = {:e}", x, gn, -g));
    }
    Ok(e)
}

pub fn pow_bound(y: f32) -> f64 {
    2.5e-4 + 8e-6 * (y as f64).abs()
}

/// Ok(Some(rel err)) if compared, Ok(None) if outside the stated domain
pub fn check_pow_one(x: f32, y: f32) -> Result<Option<f64>, String> {
    if !(x.is_normal() && x > 0.0 && y.is_finite() && y.abs() <= 80.0) {
        return Ok(None);
    }
    let exact = (x as f64).powf(y as f64);
    if !(exact >= 1e-35 && exact <= 1e35) {
        return Ok(None);
    }
    let g = powf(x, y);
    if fast() {
        let rel = ((g as f64) - exact).abs() / exact;
        if !(rel <= pow_bound(y)) {
            return Err(format!("powf({:e}, {:e}) = {:e}, true value {:e}: relative error {:e} > {:e}", x, y, g, exact, rel, pow_bound(y)));
        }
        Ok(Some(rel / pow_bound(y)))
    } else {
        let e = ulp_err(g, exact);
        if !(e <= 2.0) {
            return Err(format!("[exact build] powf({:e}, {:e}) = {:e}, libm {:e}: {:.2} ulp > 2", x, y, g, exact, e));
        }
        Ok(Some(e))
    }
}

pub fn check_exp_one(x: f32) -> Result<Option<f64>, String> {
    if !x.is_finite() {
        return Ok(None);
    }
    let g = expf(x);
    if !fast() {
        // build without fastmath (C20): expf is libm's exp, compared on the whole range
        let exact = (x as f64).exp();
        if exact > f32::MAX as f64 * (1.0 + 1e-7) {
            return if g == f32::INFINITY { Ok(Some(0.0)) } else { Err(format!("[exact build] expf({:e}) = {:e}, libm overflows to +inf", x, g)) };
        }
        let e = ulp_err(g, exact);
        if !(e <= 2.0) {
            return Err(format!("[exact build] expf({:e}) = {:e}, libm {:e}: {:.2} ulp > 2", x, g, exact, e));
        }
        return Ok(Some(e));
    }
    if (-85.0..=85.0).contains(&x) {
        let exact = (x as f64).exp();
        if fast() {
            let rel = ((g as f64) - exact).abs() / exact;
            if !(rel <= 1e-5) {
                return Err(format!("expf({:e}) = {:e}, true value {:e}: relative error {:e} > 1e-5", x, g, exact, rel));
            }
            return Ok(Some(rel));
        } else {
            let e = ulp_err(g, exact);
            if !(e <= 2.0) {
                return Err(format!("[exact build] expf({:e}) = {:e}, libm {:e}: {:.2} ulp > 2", x, g, exact, e));
            }
            return Ok(Some(e));
        }
    }
    if (89.0..=1e38).contains(&x) {
        if g != f32::INFINITY {
            return Err(format!("expf({:e}) = {:e}, expected +inf", x, g));
        }
        return Ok(Some(0.0));
    }
    if (-1e38..=-88.0).contains(&x) {
        if g != 0.0 {
            return Err(format!("expf({:e}) = {:e}, expected 0", x, g));
        }
        return Ok(Some(0.0));
    }
    Ok(None)
}

pub const SPECIALS: [u32; 24] = [
    0x0000_0000,
    0x8000_0000,
    0x7F80_0000,
    0xFF80_0000,
    0x7FC0_0000,
    0xFFC0_0000,
    0x7FA0_0000,
    0xFFA0_0001,
    0x7F7F_FFFF,
    0xFF7F_FFFF,
    0x0080_0000,
    0x8080_0000,
    0x0000_0001,
    0x8000_0001,
    0x007F_FFFF,
    0x3F80_0000,
    0xBF80_0000,
    0x7E61_B1E6, // 3e38
    0xFE61_B1E6,
    0x42B2_0000, // 89
    0xC2B0_0000, // -88
    0x4300_0000, // 128
    0xC2FE_0000, // -127
    0x4F00_0000, // 2^31
];

fn total_one(x: f32, y: f32) -> Result<(), String> {
    // totality: must not panic (the verif hook in front of to_int_unchecked panics on UB)
    catch(|| {
        let a = cbrtf(x);
        let b = powf(x, y);
        let c = expf(x);
        let d = expf(y);
        let e = powf(y, x);
        std::hint::black_box((a, b, c, d, e));
    })
    .map_err(|p| format!("x={:e} (bits {:08x}), y={:e} (bits {:08x}): {}", x, x.to_bits(), y, y.to_bits(), p))
}

pub fn check(case: &Case, st: &mut Stats) -> Result<(), Violation> {
    let fail = |sig: &str, msg: String, c: Case| Violation { signature: format!("C18:{sig}"), message: msg, case: case_json(&c) };
    st.evaluations += 1;
    match case {
        Case::Cbrt(xs) => {
            for w in xs.windows(2) {
                let (a, _, b) = (cbrtf(w[0]), cbrtf(w[1]), cbrtf(w[0]));
                if a.to_bits() != b.to_bits() && !(a.is_nan() && b.is_nan()) {
                    return Err(fail("cbrtf-impure", format!("cbrtf({:e}) returned {a:e} and, after another call, {b:e}", w[0]), Case::Cbrt(vec![w[0], w[1]])));
                }
            }
            for &x in xs {
                if !x.is_normal() {
                    continue;
                }
                match check_cbrt_one(x) {
                    Ok(e) => st.max("cbrtf_max_ulp", e),
                    Err(m) => return Err(fail("cbrtf", m, Case::Cbrt(vec![x]))),
                }
                st.comparisons += 1;
            }
            st.class("cbrtf_cases", 1);
            st.nontrivial(&("cbrt", xs.iter().map(|x| x.to_bits()).collect::<Vec<_>>()));
        }
        Case::Pow(xys) => {
            // purity: the helpers are functions of their arguments; interleaved repeated calls (same x with
            // another y, same y with another x) must reproduce the first result bit for bit
            for w in xys.windows(2) {
                let ((x0, y0), (x1, y1)) = (w[0], w[1]);
                // reference values first (the two pairs and the two crossed pairs), then the same four calls in another
                // order with other helpers in between: every repetition must reproduce its reference bit for bit,
                // whatever was computed in between (finite or not)
                let args = [(x0, y0), (x1, y1), (x0, y1), (x1, y0)];
                if let Ok(Some((k, r, g))) = catch(|| {
                    let refs: Vec<f32> = args.iter().map(|(x, y)| powf(*x, *y)).collect();
                    for (k, i) in [0usize, 1, 2, 3, 0, 2, 1, 0].into_iter().enumerate() {
                        let g = powf(args[i].0, args[i].1);
                        if g.to_bits() != refs[i].to_bits() && !(g.is_nan() && refs[i].is_nan()) {
                            return Some((i, refs[i], g));
                        }
                        if k == 4 {
                            let _ = (expf(y1), cbrtf(x1));
                        }
                    }
                    None
                }) {
                    return Err(fail("powf-impure", format!("powf({:e}, {:e}) returned {r:e} and, after calls with (x, y) in {:?}, {g:e}", args[k].0, args[k].1, args), Case::Pow(vec![(x0, y0), (x1, y1)])));
                }
            }
            let mut any = false;
            for &(x, y) in xys {
                match check_pow_one(x, y) {
                    Ok(Some(r)) => {
                        st.max(if fast() { "powf_max_err_over_bound" } else { "powf_max_ulp" }, r);
                        st.comparisons += 1;
                        any = true;
                    }
                    Ok(None) => st.class("powf_outside_domain_not_compared", 1),
                    Err(m) => return Err(fail("powf", m, Case::Pow(vec![(x, y)]))),
                }
            }
            st.class("powf_cases", 1);
            if any {
                st.nontrivial(&("pow", xys.iter().map(|(x, y)| (x.to_bits(), y.to_bits())).collect::<Vec<_>>()));
            }
        }
        Case::Exp(xs) => {
            for w in xs.windows(2) {
                let (a, _, b) = (expf(w[0]), expf(w[1]), expf(w[0]));
                if a.to_bits() != b.to_bits() && !(a.is_nan() && b.is_nan()) {
                    return Err(fail("expf-impure", format!("expf({:e}) returned {a:e} and, after another call, {b:e}", w[0]), Case::Exp(vec![w[0], w[1]])));
                }
            }
            let mut any = false;
            for &x in xs {
                match check_exp_one(x) {
                    Ok(Some(r)) => {
                        st.max(if fast() { "expf_max_rel_err" } else { "expf_max_ulp" }, r);
                        st.comparisons += 1;
                        any = true;
                    }
                    Ok(None) => st.class("expf_unspecified_region_not_compared", 1),
                    Err(m) => return Err(fail("expf", m, Case::Exp(vec![x]))),
                }
            }
            st.class("expf_cases", 1);
            if any {
                st.nontrivial(&("exp", xs.iter().map(|x| x.to_bits()).collect::<Vec<_>>()));
            }
        }
        Case::Total(xys) => {
            for &(x, y) in xys {
                if let Err(m) = total_one(x, y) {
                    let sig = if m.contains("VERIF-HOOK") { "totality-ub" } else { "totality-panic" };
                    return Err(fail(sig, m, Case::Total(vec![(x, y)])));
                }
                st.comparisons += 1;
                if !x.is_finite() || !y.is_finite() {
                    st.class("non_finite_argument", 1);
                }
            }
            st.class("totality_cases", 1);
            st.nontrivial(&("total", xys.iter().map(|(x, y)| (x.to_bits(), y.to_bits())).collect::<Vec<_>>()));
        }
    }
    st.sample(|| {
        let mut j = case_json(case);
        for k in ["x", "xy"] {
            if let Some(a) = j.get_mut(k).and_then(|a| a.as_array_mut()) {
                a.truncate(4);
            }
        }
        j
    });
    Ok(())
}

fn any_f32_bits() -> impl Strategy<Value = f32> {
    prop_oneof![
        3 => any::<u32>().prop_map(f32::from_bits),
        2 => (0usize..SPECIALS.len()).prop_map(|i| f32::from_bits(SPECIALS[i])),
        1 => (-200.0f32..200.0),
    ]
}
/// bases a caller writes as literals (and an implementation may special-case): small integers, powers of ten and
/// of two, e, 1/e
pub fn round_bases() -> Vec<f32> {
    let mut v: Vec<f32> = (2..=20).map(|i| i as f32).collect();
    v.extend((-6..=6).filter(|k| *k != 0).map(|k| 10f32.powi(k)));
    v.extend((-10..=10).filter(|k| *k != 0).map(|k| 2f32.powi(k)));
    v.extend([std::f32::consts::E, 1.0 / std::f32::consts::E, std::f32::consts::PI, std::f32::consts::SQRT_2, 1.5, 2.5, 0.75]);
    v.sort_by(|a, b| a.partial_cmp(b).unwrap());
    v.dedup();
    v
}

fn normal_pos() -> impl Strategy<Value = f32> {
    prop_oneof![
        1 => (0usize..64).prop_map(|i| { let b = round_bases(); b[i % b.len()] }),
        2 => (0x0080_0000u32..0x7F80_0000).prop_map(f32::from_bits),
        2 => (1u32..255, -4i32..=4).prop_map(|(e, d)| f32::from_bits((((e << 23) as i64) + d as i64).clamp(0x0080_0000, 0x7F7F_FFFF) as u32)),
        2 => (0.0f32..1.0).prop_map(|x| x.max(f32::MIN_POSITIVE)),
        1 => (0.5f32..2.0),
        // |x - 1| log-uniform 1e-7 .. 1e-1 (series / special-case branches around 1)
        2 => (-7.0f32..-1.0, any::<bool>()).prop_map(|(e, neg)| 1.0 + 10f32.powf(e) * if neg { -1.0 } else { 1.0 }),
    ]
}

pub fn strategy() -> BoxedStrategy<Case> {
    prop_oneof![
        2 => prop::collection::vec((0x0080_0000u32..0x7F80_0000, any::<bool>()).prop_map(|(b, s)| f32::from_bits(b | if s { 0x8000_0000 } else { 0 })), 1..256).prop_map(Case::Cbrt),
        3 => (prop::collection::vec((normal_pos(), prop_oneof![3 => (-80.0f32..=80.0), 2 => (0usize..12).prop_map(|i| LIB_EXPONENTS[i]), 2 => (-3.0f32..3.0), 2 => (-80i32..=80).prop_map(|i| i as f32), 1 => (-160i32..=160).prop_map(|i| i as f32 * 0.5)]), 1..256), any::<u64>()).prop_map(|(mut v, seed)| {
            // related neighbours: keep x or y of the previous pair in a third of the positions
            let mut e = Expand(seed);
            for i in 1..v.len() {
                match e.below(6) {
                    0 => v[i].0 = v[i - 1].0,
                    1 => v[i].1 = v[i - 1].1,
                    _ => {}
                }
            }
            Case::Pow(v)
        }),
        2 => prop::collection::vec(prop_oneof![(-85.0f32..=85.0), (89.0f32..=1e38), (-1e38f32..=-88.0), (-100.0f32..100.0), any::<u32>().prop_map(f32::from_bits)], 1..256).prop_map(Case::Exp),
        2 => prop::collection::vec((any_f32_bits(), any_f32_bits()), 1..128).prop_map(Case::Total),
    ]
    .boxed()
}

pub fn run(ctx: &Ctx, st: &mut Stats) -> Vec<Violation> {
    // every pair of special values first (deterministic, tiny)
    let mut v = Vec::new();
    let mut sp = Vec::new();
    for a in SPECIALS {
        for b in SPECIALS {
            sp.push((f32::from_bits(a), f32::from_bits(b)));
        }
    }
    if let Err(x) = check(&Case::Total(sp), st) {
        v.push(x);
    }
    v.extend(run_proptest(ctx, st, "random", ctx.cases(40_000, 400_000), strategy, check));
    if !v.is_empty() {
        return v;
    }
    v.extend(sweeps(ctx, st));
    v
}

fn sweeps(ctx: &Ctx, st: &mut Stats) -> Vec<Violation> {
    let mut out = Vec::new();
    let lo_n = 0x0080_0000u64;
    let hi_n = 0x7F80_0000u64; // exclusive
    let normals = hi_n - lo_n;
    // ---- cbrtf over normal magnitudes (oddness covers the other sign)
    let stride: u64 = if ctx.light { 509 } else { ctx.pick(61, 1) };
    let off = if stride > 1 { ctx.seed % stride } else { 0 };
    let count = (normals - off + stride - 1) / stride;
    out.extend(par_sweep(ctx, st, count, |lo, hi, st| {
        let mut worst = 0.0f64;
        for i in lo..hi {
            let x = f32::from_bits((lo_n + off + i * stride) as u32);
            match check_cbrt_one(x) {
                Ok(e) => worst = worst.max(e),
                Err(m) => return Some(Violation { signature: "C18:cbrtf".into(), message: m, case: case_json(&Case::Cbrt(vec![x])) }),
            }
        }
        st.max("cbrtf_max_ulp", worst);
        st.comparisons += hi - lo;
        st.evaluations += 1;
        st.nontrivial_by_construction += 1;
        st.class("cbrtf_sweep_chunks", 1);
        None
    }));
    if stride == 1 {
        st.exhaustive_parts.push("cbrtf: every normal f32 of both signs (2 x 2,130,706,432 values; negative sign through the oddness check)".into());
    }
    // ---- powf for each exponent the library uses
    let stride: u64 = if ctx.light { 251 } else { ctx.pick(31, 1) };
    let off = if stride > 1 { ctx.seed % stride } else { 0 };
    let count = (normals - off + stride - 1) / stride;
    for (ei, y) in LIB_EXPONENTS.iter().copied().enumerate() {
        out.extend(par_sweep(ctx, st, count, |lo, hi, st| {
            let mut worst = 0.0f64;
            let mut n = 0u64;
            for i in lo..hi {
                let x = f32::from_bits((lo_n + off + i * stride) as u32);
                match check_pow_one(x, y) {
                    Ok(Some(r)) => {
                        worst = worst.max(r);
                        n += 1;
                    }
                    Ok(None) => {}
                    Err(m) => return Some(Violation { signature: "C18:powf".into(), message: m, case: case_json(&Case::Pow(vec![(x, y)])) }),
                }
            }
            st.max(if fast() { "powf_max_err_over_bound" } else { "powf_max_ulp" }, worst);
            st.comparisons += n;
            st.evaluations += 1;
            st.nontrivial_by_construction += 1;
            st.class(&format!("powf_sweep_chunks_exponent_{ei}"), 1);
            None
        }));
        if !out.is_empty() {
            return out;
        }
    }
    if stride == 1 {
        st.exhaustive_parts.push("powf: every positive normal x for each of the 12 exponents the library uses".into());
    }
    // ---- powf with round bases (literals a caller writes: 2, 10, e, 0.5, ...) over a dense grid of exponents
    {
        let bases = round_bases();
        let steps: i64 = if ctx.light { 8 } else { ctx.pick(64, 1024) as i64 };
        out.extend(par_sweep(ctx, st, bases.len() as u64, |lo, hi, st| {
            for bi in lo..hi {
                let x = bases[bi as usize];
                let mut worst = 0.0f64;
                let mut n = 0u64;
                for k in (-80 * steps)..=(80 * steps) {
                    let y = k as f32 / steps as f32;
                    match check_pow_one(x, y) {
                        Ok(Some(r)) => {
                            worst = worst.max(r);
                            n += 1;
                        }
                        Ok(None) => {}
                        Err(m) => return Some(Violation { signature: "C18:powf".into(), message: m, case: case_json(&Case::Pow(vec![(x, y)])) }),
                    }
                }
                st.max(if fast() { "powf_max_err_over_bound" } else { "powf_max_ulp" }, worst);
                st.comparisons += n;
                st.evaluations += 1;
                st.nontrivial_by_construction += 1;
                st.class("powf_round_base_sweeps", 1);
            }
            None
        }));
        if !out.is_empty() {
            return out;
        }
    }
    // ---- expf over all f32
    let stride: u64 = if ctx.light { 389 } else { ctx.pick(47, 1) };
    let off = if stride > 1 { ctx.seed % stride } else { 0 };
    let count = ((1u64 << 32) - off + stride - 1) / stride;
    out.extend(par_sweep(ctx, st, count, |lo, hi, st| {
        let mut worst = 0.0f64;
        let mut n = 0u64;
        for i in lo..hi {
            let x = f32::from_bits((off + i * stride) as u32);
            if !x.is_finite() {
                // totality only
                if let Err(m) = total_one(x, 1.0) {
                    return Some(Violation { signature: "C18:totality-ub".into(), message: m, case: case_json(&Case::Total(vec![(x, 1.0)])) });
                }
                continue;
            }
            match catch(|| check_exp_one(x)) {
                Ok(Ok(Some(r))) => {
                    worst = worst.max(r);
                    n += 1;
                }
                Ok(Ok(None)) => {}
                Ok(Err(m)) => return Some(Violation { signature: "C18:expf".into(), message: m, case: case_json(&Case::Exp(vec![x])) }),
                Err(p) => return Some(Violation { signature: "C18:totality-ub".into(), message: format!("expf({x:e}): {p}"), case: case_json(&Case::Total(vec![(x, 1.0)])) }),
            }
        }
        st.max(if fast() { "expf_max_rel_err" } else { "expf_max_ulp" }, worst);
        st.comparisons += n;
        st.evaluations += 1;
        st.nontrivial_by_construction += 1;
        st.class("expf_sweep_chunks", 1);
        None
    }));
    if stride == 1 {
        st.exhaustive_parts.push("expf: all 2^32 f32 bit patterns".into());
    }
    let _ = oracle::PQ_M1;
    out
}

/// cases for the Miri engine: all pairs of special values and a few generated batches
pub fn corpus(seed: u64, n: usize) -> Vec<Value> {
    let mut out = Vec::new();
    for a in SPECIALS {
        let row: Vec<(f32, f32)> = SPECIALS.iter().map(|b| (f32::from_bits(a), f32::from_bits(*b))).collect();
        out.push(case_json(&Case::Total(row)));
    }
    let strat = strategy();
    for c in sample_strategy(&strat, mix64(seed ^ 0x18), n) {
        let c = match c {
            Case::Cbrt(v) => Case::Cbrt(v.into_iter().take(8).collect()),
            Case::Pow(v) => Case::Pow(v.into_iter().take(8).collect()),
            Case::Exp(v) => Case::Exp(v.into_iter().take(8).collect()),
            Case::Total(v) => Case::Total(v.into_iter().take(16).collect()),
        };
        out.push(case_json(&c));
    }
    out
}

pub fn replay(v: &Value) -> Result<(), String> {
    check(&case_from_json(v).ok_or("bad case")?, &mut Stats::new()).map_err(|v| v.message)
}

pub const RULE: &str = "cases = batches for one of: cbrtf (normal f32, both signs), powf ((x,y): x positive normal uniform in bit pattern / at exponent boundaries +-4 ulp / in (0,1) / near 1 (|x-1| log-uniform 1e-7..1e-1) / round constants (2..20, powers of ten and two, e, 1/e, pi); y in [-80,80], every whole and half number of that range, the 12 exponents the library uses, small y), expf ([-85,85], [89,1e38], [-1e38,-88], arbitrary bits), totality (all 24x24 pairs of special values, random bit patterns for both arguments of cbrtf/powf/expf) generated by proptest, plus strided (quick) or complete (thorough) enumerations: cbrtf over all normal magnitudes, powf over all positive normal x for each library exponent and over a dense exponent grid (step 1/64; thorough 1/1024) for each of ~60 round bases, expf over all 2^32 patterns; interleaved repeated calls must reproduce the first result bitwise (purity); oracle = f64 libm with the statement's bounds (builds without fastmath: 2 ulp of libm); a panic (incl. the verif hook before to_int_unchecked) is a violation; non-trivial = batch with at least one compared value; distinct = by hash of argument bits";
