//! C14 Support and error contract over every metadata combination (complete enumeration).

use crate::api::{cfg, cfg_from_json, cfg_json, frame444};
use crate::conv::yuv_samples;
use crate::engine::*;
use crate::oracle::{ALL_CP, ALL_MC, ALL_TC, STD_MC, SUP_CP, SUP_TC};
use serde_json::{json, Value};
use yuvxyb::{
    ColorPrimaries as CP, ConversionError as CE, LinearRgb, MatrixCoefficients as MC, Pixel, Rgb, TransferCharacteristic as TC, Xyb, Yuv, YuvConfig,
};

const PIX4: [[f32; 3]; 4] = [[0.10, 0.20, 0.30], [0.80, 0.40, 0.20], [0.50, 0.50, 0.50], [0.25, 0.75, 0.95]];
const CODES: [[u16; 3]; 4] = [[60, 100, 140], [200, 90, 160], [128, 128, 128], [35, 180, 70]];
/// 4x4 image (so that every subsampling up to 4:1:0 divides it)
fn pix(img: u8) -> Vec<[f32; 3]> {
    match img {
        // all grey: whole-image fast paths for achromatic content must not change the contract
        1 => (0..16).map(|i| [0.1 + 0.05 * i as f32; 3]).collect(),
        // out-of-gamut floats (negative and super-white)
        2 => (0..16).map(|i| { let p = PIX4[(i + i / 4) % 4]; [p[0] * 1.6 - 0.3, 1.25 - p[1], p[2] * 1.4 - 0.2] }).collect(),
        _ => (0..16).map(|i| PIX4[(i + i / 4) % 4]).collect(),
    }
}
fn xyb_pix(img: u8) -> Vec<[f32; 3]> {
    match img {
        1 => (0..16).map(|i| [0.0, 0.1 + 0.04 * i as f32, 0.1 + 0.04 * i as f32]).collect(),
        _ => pix(img).into_iter().map(|q| [q[0] * 0.01, q[1] * 0.5, q[2] * 0.5]).collect(),
    }
}

/// the part of the configuration that is not metadata: subsampling and range
#[derive(Clone, Copy, Debug, PartialEq, Eq)]
pub struct Shape {
    pub ss: (u8, u8),
    pub full: bool,
    /// image content: 0 colourful in-gamut, 1 achromatic (grey pixels / neutral chroma), 2 out-of-gamut floats / extreme codes
    pub img: u8,
}
pub const SHAPES: [Shape; 14] = [
    Shape { ss: (0, 0), full: false, img: 0 },
    Shape { ss: (0, 0), full: true, img: 0 },
    Shape { ss: (1, 1), full: false, img: 0 },
    Shape { ss: (1, 1), full: true, img: 0 },
    Shape { ss: (1, 0), full: false, img: 0 },
    Shape { ss: (1, 0), full: true, img: 0 },
    Shape { ss: (2, 2), full: false, img: 0 },
    Shape { ss: (0, 1), full: true, img: 0 },
    Shape { ss: (0, 0), full: false, img: 1 },
    Shape { ss: (1, 1), full: true, img: 1 },
    Shape { ss: (0, 0), full: false, img: 2 },
    Shape { ss: (0, 0), full: true, img: 2 },
    Shape { ss: (1, 1), full: false, img: 2 },
    Shape { ss: (1, 0), full: true, img: 2 },
];

/// outcome of one conversion: Ok(fingerprint of the output) or the error
type Out = Result<Vec<u32>, CE>;

fn fp_f(d: &[[f32; 3]]) -> Vec<u32> {
    d.iter().flat_map(|p| p.iter().map(|x| x.to_bits())).collect()
}
fn fp_y<T: Pixel>(y: &Yuv<T>) -> Vec<u32> {
    yuv_samples(y).into_iter().flat_map(|(_, _, s)| s.into_iter().map(u32::from)).collect()
}

fn mk_yuv<T: Pixel>(c: &YuvConfig, img: u8) -> Yuv<T> {
    let k = if c.bit_depth > 8 { c.bit_depth - 8 } else { 0 };
    let (cw, ch) = (4usize >> c.subsampling_x, 4usize >> c.subsampling_y);
    let max = ((1u32 << c.bit_depth) - 1) as u16;
    let plane = |pl: usize, n: usize| -> Vec<u16> {
        (0..n)
            .map(|i| match img {
                1 => if pl == 0 { (30 + 12 * i as u16) << k } else { 128 << k },
                2 => [0, max, 1, max - 1][(i + pl) % 4],
                _ => CODES[(i + i / 4) % 4][pl] << k,
            })
            .collect()
    };
    let planes = [plane(0, 16), plane(1, cw * ch), plane(2, cw * ch)];
    Yuv::<T>::new(crate::conv::yuv_frame::<T>(4, 4, (c.subsampling_x, c.subsampling_y), [(0, 0); 3], &planes, 0), *c).expect("well-formed 4x4 frame")
}

pub const NCONV: usize = 12;
pub const CONV_NAMES: [&str; NCONV] = [
    "Yuv<u8>->Rgb",
    "(&Rgb,cfg)->Yuv<u8>",
    "Yuv<u16>->Rgb",
    "(&Rgb,cfg)->Yuv<u16>",
    "Rgb->LinearRgb",
    "(LinearRgb,t,p)->Rgb",
    "Yuv<u16>->LinearRgb",
    "(LinearRgb,cfg)->Yuv<u16>",
    "Yuv<u8>->Xyb",
    "(Xyb,cfg)->Yuv<u8>",
    "Rgb->Xyb",
    "(Xyb,t,p)->Rgb",
];
/// which metadata fields a conversion may legitimately depend on: (matrix, primaries, transfer)
const USES: [(bool, bool, bool); NCONV] = [
    (true, true, false), // primaries only through the matrix-from-primaries lookups
    (true, true, false),
    (true, true, false),
    (true, true, false),
    (false, true, true),
    (false, true, true),
    (true, true, true),
    (true, true, true),
    (true, true, true),
    (true, true, true),
    (false, true, true),
    (false, true, true),
];

fn run_conv(i: usize, m: MC, p: CP, t: TC, sh: Shape) -> Out {
    let c8 = cfg(m, t, p, 8, sh.full, sh.ss);
    let c10 = cfg(m, t, p, 10, sh.full, sh.ss);
    match i {
        0 => Rgb::try_from(&mk_yuv::<u8>(&c8, sh.img)).map(|r| fp_f(r.data())),
        1 => Yuv::<u8>::try_from((&Rgb::new(pix(sh.img), 4, 4, t, p).unwrap(), c8)).map(|y| fp_y(&y)),
        2 => Rgb::try_from(&mk_yuv::<u16>(&c10, sh.img)).map(|r| fp_f(r.data())),
        3 => Yuv::<u16>::try_from((&Rgb::new(pix(sh.img), 4, 4, t, p).unwrap(), c10)).map(|y| fp_y(&y)),
        4 => LinearRgb::try_from(Rgb::new(pix(sh.img), 4, 4, t, p).unwrap()).map(|r| fp_f(r.data())),
        5 => Rgb::try_from((LinearRgb::new(pix(sh.img), 4, 4).unwrap(), t, p)).map(|r| fp_f(r.data())),
        6 => LinearRgb::try_from(&mk_yuv::<u16>(&c10, sh.img)).map(|r| fp_f(r.data())),
        7 => Yuv::<u16>::try_from((LinearRgb::new(pix(sh.img), 4, 4).unwrap(), c10)).map(|y| fp_y(&y)),
        8 => Xyb::try_from(&mk_yuv::<u8>(&c8, sh.img)).map(|r| fp_f(r.data())),
        9 => Yuv::<u8>::try_from((Xyb::new(xyb_pix(sh.img), 4, 4).unwrap(), c8)).map(|y| fp_y(&y)),
        10 => Xyb::try_from(Rgb::new(pix(sh.img), 4, 4, t, p).unwrap()).map(|r| fp_f(r.data())),
        _ => Rgb::try_from((Xyb::new(xyb_pix(sh.img), 4, 4).unwrap(), t, p)).map(|r| fp_f(r.data())),
    }
}

fn guarded(i: usize, m: MC, p: CP, t: TC, sh: Shape) -> Result<Out, String> {
    catch(|| run_conv(i, m, p, t, sh))
}

fn names(m: MC, p: CP, t: TC) -> Value {
    json!({"matrix": crate::oracle::mc_name(m), "primaries": crate::oracle::cp_name(p), "transfer": crate::oracle::tc_name(t)})
}

pub fn check_triple(m: MC, p: CP, t: TC, sh: Shape, st: &mut Stats) -> Result<(), Violation> {
    let fail = |sig: String, msg: String| Violation {
        signature: sig,
        message: format!("{msg} [matrix={:?} primaries={:?} transfer={:?} subsampling={:?} full_range={} image={}]", m, p, t, sh.ss, sh.full, ["colourful", "achromatic", "out-of-gamut"][sh.img as usize % 3]),
        case: json!({"prop":"C14","triple":names(m, p, t),"ss":[sh.ss.0, sh.ss.1],"full":sh.full,"img":sh.img}),
    };
    let all_supported = STD_MC.contains(&m) && SUP_CP.contains(&p) && SUP_TC.contains(&t);
    let mut outs: Vec<Out> = Vec::with_capacity(NCONV);
    for i in 0..NCONV {
        match guarded(i, m, p, t, sh) {
            Err(pn) => return Err(fail(format!("C14:panic:{}", CONV_NAMES[i]), format!("{} panicked: {pn}", CONV_NAMES[i]))),
            Ok(o) => outs.push(o),
        }
    }
    st.comparisons += NCONV as u64;
    for (i, o) in outs.iter().enumerate() {
        match o {
            Ok(_) => {}
            Err(e) => {
                if all_supported {
                    return Err(fail(format!("C14:supported-fails:{}", CONV_NAMES[i]), format!("{} fails with {e:?} although matrix, primaries and transfer are all supported", CONV_NAMES[i])));
                }
                // must be an Unsupported* variant (nothing is Unspecified in this domain) ...
                let (is_m, is_p, is_t) = match e {
                    CE::UnsupportedMatrixCoefficients => (true, false, false),
                    CE::UnsupportedColorPrimaries => (false, true, false),
                    CE::UnsupportedTransferCharacteristic => (false, false, true),
                    other => {
                        return Err(fail(format!("C14:unspecified-variant:{}", CONV_NAMES[i]), format!("{} reports {other:?} although no field is Unspecified", CONV_NAMES[i])));
                    }
                };
                // ... naming a field the conversion uses ...
                let (um, up, ut) = USES[i];
                if (is_m && !um) || (is_p && !up) || (is_t && !ut) {
                    return Err(fail(format!("C14:blames-unused-field:{}", CONV_NAMES[i]), format!("{} reports {e:?}, a field this conversion does not use", CONV_NAMES[i])));
                }
                // ... that is responsible: replacing only that field by a supported value removes this error
                let (m2, p2, t2) = (if is_m { MC::BT709 } else { m }, if is_p { CP::BT709 } else { p }, if is_t { TC::BT1886 } else { t });
                match guarded(i, m2, p2, t2, sh) {
                    Err(pn) => return Err(fail(format!("C14:panic:{}", CONV_NAMES[i]), format!("{} panicked on the counterfactual: {pn}", CONV_NAMES[i]))),
                    Ok(Err(e2)) if e2 == *e => {
                        return Err(fail(
                            format!("C14:wrong-field-blamed:{}", CONV_NAMES[i]),
                            format!("{} reports {e:?}, but replacing only that field by BT.709/BT.1886 still gives {e2:?}: the named field is not the offending one", CONV_NAMES[i]),
                        ));
                    }
                    Ok(_) => {}
                }
                st.class(&format!("error_{e:?}"), 1);
            }
        }
    }
    // symmetry: forward Ok iff reverse Ok
    for pair in 0..NCONV / 2 {
        let (f, r) = (&outs[2 * pair], &outs[2 * pair + 1]);
        if f.is_ok() != r.is_ok() {
            return Err(fail(
                format!("C14:asymmetric-support:{}", CONV_NAMES[2 * pair]),
                format!("{} gives {:?} but its reverse {} gives {:?}", CONV_NAMES[2 * pair], f.as_ref().map(|_| "Ok").map_err(|e| *e), CONV_NAMES[2 * pair + 1], r.as_ref().map(|_| "Ok").map_err(|e| *e)),
            ));
        }
        // single-stage pairs fail with the same error
        if pair <= 2 {
            if let (Err(a), Err(b)) = (f, r) {
                if a != b {
                    return Err(fail(
                        format!("C14:different-errors:{}", CONV_NAMES[2 * pair]),
                        format!("{} fails with {a:?} but its reverse {} fails with {b:?}", CONV_NAMES[2 * pair], CONV_NAMES[2 * pair + 1]),
                    ));
                }
            }
        }
    }
    // independence: with a standard matrix YUV<->RGB ignores transfer and primaries
    if STD_MC.contains(&m) {
        for i in 0..4 {
            let base = guarded(i, m, CP::BT709, TC::BT1886, sh).map_err(|pn| fail(format!("C14:panic:{}", CONV_NAMES[i]), pn))?;
            match (&outs[i], &base) {
                (Ok(a), Ok(b)) if a == b => {}
                (a, b) => {
                    return Err(fail(
                        format!("C14:depends-on-unused-metadata:{}", CONV_NAMES[i]),
                        format!("{} with a standard matrix depends on transfer/primaries: {:?} vs the BT.709/BT.1886 result {:?}", CONV_NAMES[i], a.as_ref().map(|v| &v[..v.len().min(4)]), b.as_ref().map(|v| &v[..v.len().min(4)])),
                    ));
                }
            }
        }
        st.class("standard_matrix_independence_checked", 1);
    }
    if all_supported {
        st.class("all_supported_triples", 1);
    }
    Ok(())
}

pub fn run(ctx: &Ctx, st: &mut Stats) -> Vec<Violation> {
    let mut triples = Vec::new();
    for m in ALL_MC {
        for p in ALL_CP {
            for t in ALL_TC {
                if m != MC::Unspecified && p != CP::Unspecified && t != TC::Unspecified {
                    triples.push((m, p, t));
                }
            }
        }
    }
    assert_eq!(triples.len(), 3276);
    let nt = triples.len() as u64;
    // the triples are visited in a different order for each shape (transfer, primaries or matrix varying
    // fastest, or shuffled): the contract of a conversion must not depend on which conversion ran before it
    let mut orders: Vec<Vec<usize>> = Vec::new();
    let idx = |m: usize, p: usize, t: usize| -> usize { (m * 13 + p) * 18 + t };
    orders.push((0..triples.len()).collect());
    let mut o2 = Vec::new();
    for t in 0..18 {
        for m in 0..14 {
            for p in 0..13 {
                o2.push(idx(m, p, t));
            }
        }
    }
    orders.push(o2);
    let mut o3 = Vec::new();
    for p in 0..13 {
        for t in 0..18 {
            for m in 0..14 {
                o3.push(idx(m, p, t));
            }
        }
    }
    orders.push(o3);
    let mut o4: Vec<usize> = (0..triples.len()).collect();
    let mut e = Expand(ctx.seed ^ 0xC14);
    for i in (1..o4.len()).rev() {
        o4.swap(i, e.below(i as u64 + 1) as usize);
    }
    orders.push(o4);
    let out = par_sweep(ctx, st, nt * SHAPES.len() as u64, |lo, hi, st| {
        for i in lo..hi {
            let sh = SHAPES[(i / nt) as usize];
            let (m, p, t) = triples[orders[(i / nt) as usize % orders.len()][(i % nt) as usize]];
            if let Err(v) = check_triple(m, p, t, sh, st) {
                return Some(v);
            }
            st.evaluations += 1;
            let all_supported = STD_MC.contains(&m) && SUP_CP.contains(&p) && SUP_TC.contains(&t);
            if !all_supported {
                st.nontrivial_by_construction += 1;
            }
            if i % 3001 == 0 {
                st.samples.push(json!({"triple": names(m, p, t), "ss": [sh.ss.0, sh.ss.1], "full": sh.full, "img": sh.img}));
            }
        }
        None
    });
    if out.is_empty() {
        st.exhaustive_parts.push("ALL: 14 x 13 x 18 = 3276 fully specified (matrix, primaries, transfer) triples x 12 conversions (6 forward/reverse pairs), each under 14 (subsampling, range, image content) shapes".into());
    }
    let mut out = out;
    if out.is_empty() {
        out.extend(pairwise_interference(ctx, st));
    }
    if out.is_empty() {
        out.extend(triple_interference(ctx, st));
    }
    if out.is_empty() {
        out.extend(size_axis(ctx, st));
    }
    if out.is_empty() {
        out.extend(yuv_size_axis(ctx, st));
    }
    out
}

/// The YUV<->RGB error contract must not depend on the frame size or layout: for every (matrix, primaries) pair the
/// outcome (Ok, or which error) on real-size frames - unpadded with stride == width, padded, u8 and u16 storage -
/// equals the outcome on a 4x4 frame (which the complete enumeration above judges against the contract).
fn yuv_size_axis(ctx: &Ctx, st: &mut Stats) -> Vec<Violation> {
    let sizes: Vec<(usize, usize, usize)> = if ctx.quick() { vec![(256, 256, 0), (1024, 72, 0), (321, 207, 9)] } else { vec![(256, 256, 0), (1024, 72, 0), (321, 207, 9), (1920, 1080, 0), (3840, 2160, 0)] };
    let mut jobs = Vec::new();
    for m in ALL_MC {
        for p in ALL_CP {
            if m != MC::Unspecified && p != CP::Unspecified {
                for (si, _) in sizes.iter().enumerate() {
                    // the two largest sizes: a rotating third of the configurations
                    if si >= 3 && (jobs.len() + si) % 3 != 0 {
                        continue;
                    }
                    jobs.push((m, p, si));
                }
            }
        }
    }
    fn outcome<T: yuvxyb::Pixel>(c: yuvxyb::YuvConfig, w: usize, h: usize, pad: usize) -> (Result<(), CE>, Result<(), CE>)
    where
        Yuv<T>: TryFrom<(Rgb, yuvxyb::YuvConfig), Error = CE>,
    {
        let max = (1u32 << c.bit_depth) - 1;
        let codes: Vec<[u16; 3]> = (0..w * h).map(|i| [((i * 7 + 1) as u32 % (max + 1)) as u16, ((i * 13 + 5) as u32 % (max + 1)) as u16, ((i * 29 + 3) as u32 % (max + 1)) as u16]).collect();
        let dec = Yuv::<T>::new(crate::api::frame444_pads::<T>(&codes, w, h, [(pad, 0), (0, 0), (pad, pad.min(1))]), c).map_err(|_| CE::UnsupportedMatrixCoefficients).and_then(|y| Rgb::try_from(&y).map(|_| ()));
        let enc = Rgb::new(vec![[0.25f32, 0.5, 0.75]; w * h], w, h, c.transfer_characteristics, c.color_primaries).map_err(|_| CE::UnsupportedMatrixCoefficients).and_then(|r| Yuv::<T>::try_from((r, c)).map(|_| ()));
        (dec, enc)
    }
    par_sweep(ctx, st, jobs.len() as u64, |lo, hi, st| {
        for j in lo..hi {
            let (m, p, si) = jobs[j as usize];
            let (w, h, pad) = sizes[si];
            for (depth, u8s) in [(8u8, true), (10, false)] {
                let c = cfg(m, TC::BT1886, p, depth, j % 2 == 0, (0, 0));
                let r = catch(|| if u8s { (outcome::<u8>(c, 4, 4, 0), outcome::<u8>(c, w, h, pad)) } else { (outcome::<u16>(c, 4, 4, 0), outcome::<u16>(c, w, h, pad)) });
                let mk = |msg: String| Violation {
                    signature: "C14:yuv-size-axis".into(),
                    message: format!("{msg} [{w}x{h} frame, plane padding {pad}, {} storage, matrix={:?} primaries={:?}]", if u8s { "u8" } else { "u16" }, m, p),
                    case: json!({"prop":"C14","part":"size","w":w,"h":h,"triple":names(m, p, TC::BT1886)}),
                };
                match r {
                    Err(pn) => return Some(mk(format!("panic: {pn}"))),
                    Ok((small, big)) => {
                        if small != big {
                            return Some(mk(format!("YUV->RGB / RGB->YUV give {:?} on a 4x4 frame but {:?} on the real-size frame: the error contract depends on the frame size or layout", small, big)));
                        }
                        if big.0.is_ok() != big.1.is_ok() {
                            return Some(mk(format!("YUV->RGB gives {:?} but RGB->YUV gives {:?}", big.0, big.1)));
                        }
                    }
                }
                st.comparisons += 2;
            }
            st.evaluations += 1;
            st.nontrivial_by_construction += 1;
            st.class("yuv_size_axis_cases", 1);
        }
        None
    })
}

/// Two-step histories over the metadata: for every ordered pair of (matrix, primaries) configurations, the
/// second conversion is run right after the first on the same thread and must give what it gives in
/// isolation (computed on a fresh thread). Exhaustive over all (14 x 13)^2 ordered pairs, both directions.
fn pairwise_interference(ctx: &Ctx, st: &mut Stats) -> Vec<Violation> {
    let mut cfgs: Vec<(MC, CP)> = Vec::new();
    for m in ALL_MC {
        for p in ALL_CP {
            if m != MC::Unspecified && p != CP::Unspecified {
                cfgs.push((m, p));
            }
        }
    }
    let sh = Shape { ss: (0, 0), full: false, img: 0 };
    // results in isolation: one fresh thread per configuration
    let iso: Vec<[Out; 2]> = cfgs
        .iter()
        .map(|&(m, p)| std::thread::spawn(move || [run_conv(0, m, p, TC::BT1886, sh), run_conv(1, m, p, TC::BT1886, sh)]).join().unwrap_or([Err(CE::UnsupportedMatrixCoefficients), Err(CE::UnsupportedMatrixCoefficients)]))
        .collect();
    let n = cfgs.len() as u64;
    let out = par_sweep(ctx, st, n, |lo, hi, st| {
        for a in lo..hi {
            let (ma, pa) = cfgs[a as usize];
            for (b, &(mb, pb)) in cfgs.iter().enumerate() {
                for conv in 0..2usize {
                    let r = catch(|| {
                        let _ = run_conv(conv, ma, pa, TC::BT1886, sh);
                        run_conv(conv, mb, pb, TC::BT1886, sh)
                    });
                    let same = match (&r, &iso[b][conv]) {
                        (Ok(Ok(x)), Ok(y)) => x == y,
                        (Ok(Err(x)), Err(y)) => x == y,
                        _ => false,
                    };
                    if !same {
                        return Some(Violation {
                            signature: format!("C14:interference:{}", CONV_NAMES[conv]),
                            message: format!(
                                "{} with (matrix={:?}, primaries={:?}) gives {:?} right after the same conversion with (matrix={:?}, primaries={:?}) on the same thread, but {:?} in isolation",
                                CONV_NAMES[conv], mb, pb, r.as_ref().map(|x| x.as_ref().map(|v| v[..v.len().min(4)].to_vec())), ma, pa, iso[b][conv].as_ref().map(|v| v[..v.len().min(4)].to_vec())
                            ),
                            case: json!({"prop":"C14","part":"pair","first":names(ma, pa, TC::BT1886),"second":names(mb, pb, TC::BT1886),"conv":conv}),
                        });
                    }
                }
            }
            st.evaluations += 1;
            st.comparisons += 2 * n;
            st.nontrivial_by_construction += 1;
            st.class("interference_rows", 1);
        }
        None
    });
    if out.is_empty() {
        st.exhaustive_parts.push("all (14 x 13)^2 = 33,124 ordered pairs of (matrix, primaries) configurations x YUV->RGB and RGB->YUV: second conversion right after the first vs in isolation".into());
    }
    out
}

/// The same over the complete metadata: every ordered pair of fully specified (matrix, primaries, transfer) triples
/// (3276^2 = 10.7 M pairs), YUV->RGB and RGB->YUV, the second conversion right after the first on one thread against
/// its result in isolation. (Keys that pack the three fields with too small a radix collide between triples that
/// differ in two fields at once.)
fn triple_interference(ctx: &Ctx, st: &mut Stats) -> Vec<Violation> {
    let mut cfgs: Vec<(MC, CP, TC)> = Vec::new();
    for m in ALL_MC {
        for p in ALL_CP {
            for t in ALL_TC {
                if m != MC::Unspecified && p != CP::Unspecified && t != TC::Unspecified {
                    cfgs.push((m, p, t));
                }
            }
        }
    }
    let sh = Shape { ss: (0, 0), full: false, img: 0 };
    // results in isolation, computed on fresh threads (one thread per matrix: its configs one after the other would
    // not be "in isolation", so each config gets its own)
    let iso: Vec<[Out; 2]> = cfgs
        .chunks(64)
        .flat_map(|ch| {
            let hs: Vec<_> = ch.iter().map(|&(m, p, t)| std::thread::spawn(move || [run_conv(0, m, p, t, sh), run_conv(1, m, p, t, sh)])).collect();
            hs.into_iter().map(|h| h.join().unwrap_or([Err(CE::UnsupportedMatrixCoefficients), Err(CE::UnsupportedMatrixCoefficients)])).collect::<Vec<_>>()
        })
        .collect();
    let n = cfgs.len() as u64;
    let out = par_sweep(ctx, st, n, |lo, hi, st| {
        for a in lo..hi {
            let (ma, pa, ta) = cfgs[a as usize];
            for (b, &(mb, pb, tb)) in cfgs.iter().enumerate() {
                for conv in 0..2usize {
                    let r = catch(|| {
                        let _ = run_conv(conv, ma, pa, ta, sh);
                        run_conv(conv, mb, pb, tb, sh)
                    });
                    let same = match (&r, &iso[b][conv]) {
                        (Ok(Ok(x)), Ok(y)) => x == y,
                        (Ok(Err(x)), Err(y)) => x == y,
                        _ => false,
                    };
                    if !same {
                        return Some(Violation {
                            signature: format!("C14:interference3:{}", CONV_NAMES[conv]),
                            message: format!(
                                "{} with {} gives {:?} right after the same conversion with {} on the same thread, but {:?} in isolation",
                                CONV_NAMES[conv], names(mb, pb, tb), r.as_ref().map(|x| x.as_ref().map(|v| v[..v.len().min(4)].to_vec())), names(ma, pa, ta), iso[b][conv].as_ref().map(|v| v[..v.len().min(4)].to_vec())
                            ),
                            case: json!({"prop":"C14","part":"pair","first":names(ma, pa, ta),"second":names(mb, pb, tb),"conv":conv}),
                        });
                    }
                }
            }
            st.evaluations += 1;
            st.comparisons += 2 * n;
            st.nontrivial_by_construction += 1;
            st.class("interference3_rows", 1);
        }
        None
    });
    if out.is_empty() {
        st.exhaustive_parts.push("all 3276^2 = 10,732,176 ordered pairs of fully specified (matrix, primaries, transfer) triples x YUV->RGB and RGB->YUV: second conversion right after the first vs in isolation".into());
    }
    out
}

/// The gamma<->linear and RGB<->XYB error contract on real-size images (error paths of size-gated code)
fn size_axis(ctx: &Ctx, st: &mut Stats) -> Vec<Violation> {
    let sizes: Vec<(usize, usize)> = if ctx.quick() { vec![(257, 255), (2049, 2049), (3840, 2160)] } else { vec![(257, 255), (2049, 2049), (3840, 2160), (3841, 2161), (4097, 4097)] };
    let bad_p = [CP::Reserved0, CP::Reserved, CP::BT709];
    let bad_t = [TC::Reserved0, TC::Reserved, TC::BT1361E, TC::ST428, TC::SRGB];
    let mut jobs = Vec::new();
    for &(w, h) in &sizes {
        for p in bad_p {
            for t in bad_t {
                jobs.push((w, h, p, t));
            }
        }
    }
    par_sweep(ctx, st, jobs.len() as u64, |lo, hi, st| {
        for j in lo..hi {
            let (w, h, p, t) = jobs[j as usize];
            let n = w * h;
            let r = catch(|| {
                let fwd = LinearRgb::try_from(Rgb::new(vec![[0.25f32, 0.5, 0.75]; n], w, h, t, p).unwrap()).map(|_| ());
                let rev = Rgb::try_from((LinearRgb::new(vec![[0.25f32, 0.5, 0.75]; n], w, h).unwrap(), t, p)).map(|_| ());
                let fx = Xyb::try_from(Rgb::new(vec![[0.25f32, 0.5, 0.75]; n], w, h, t, p).unwrap()).map(|_| ());
                let rx = Rgb::try_from((Xyb::new(vec![[0.0f32, 0.3, 0.3]; n], w, h).unwrap(), t, p)).map(|_| ());
                (fwd, rev, fx, rx)
            });
            let mk = |msg: String| Violation {
                signature: "C14:size-axis".into(),
                message: format!("{msg} [{w}x{h} image, primaries={:?} transfer={:?}]", p, t),
                case: json!({"prop":"C14","part":"size","w":w,"h":h,"triple":names(MC::BT709, p, t)}),
            };
            match r {
                Err(pn) => return Some(mk(format!("panic: {pn}"))),
                Ok((fwd, rev, fx, rx)) => {
                    let sup = SUP_CP.contains(&p) && SUP_TC.contains(&t);
                    if fwd != rev {
                        return Some(mk(format!("gamma->linear gives {:?} but linear->gamma gives {:?}", fwd, rev)));
                    }
                    if fx.is_ok() != rx.is_ok() || fwd.is_ok() != sup || fx.is_ok() != sup {
                        return Some(mk(format!("support differs from the contract: gamma<->linear {:?}/{:?}, RGB<->XYB {:?}/{:?}", fwd, rev, fx, rx)));
                    }
                }
            }
            st.evaluations += 1;
            st.comparisons += 4;
            st.nontrivial_by_construction += 1;
            st.class("size_axis_cases", 1);
        }
        None
    })
}

pub fn replay(v: &Value) -> Result<(), String> {
    if matches!(v.get("part").and_then(|p| p.as_str()), Some("pair") | Some("size")) {
        // these parts are enumerations: re-run them
        let ctx = Ctx { id: "C14".into(), tier: Tier::Quick, seed: 0, threads: 8, known_open: vec![], build: "fast".into(), light: false };
        let mut st = Stats::new();
        let mut v2 = pairwise_interference(&ctx, &mut st);
        v2.extend(triple_interference(&ctx, &mut st));
        v2.extend(size_axis(&ctx, &mut st));
        v2.extend(yuv_size_axis(&ctx, &mut st));
        return match v2.into_iter().next() {
            Some(x) => Err(x.message),
            None => Ok(()),
        };
    }
    let t = v.get("triple").ok_or("triple")?;
    let c = cfg_from_json(&json!({"depth":8,"ss_x":0,"ss_y":0,"full":false,"matrix":t.get("matrix"),"transfer":t.get("transfer"),"primaries":t.get("primaries")})).ok_or("bad triple")?;
    let _ = cfg_json(&c);
    let ss = v.get("ss").and_then(|a| a.as_array()).map(|a| (a[0].as_u64().unwrap_or(0) as u8, a[1].as_u64().unwrap_or(0) as u8)).unwrap_or((0, 0));
    let full = v.get("full").and_then(|b| b.as_bool()).unwrap_or(false);
    let img = v.get("img").and_then(|b| b.as_u64()).unwrap_or(0) as u8;
    check_triple(c.matrix_coefficients, c.color_primaries, c.transfer_characteristics, Shape { ss, full, img }, &mut Stats::new()).map_err(|v| v.message)
}

pub const RULE: &str = "complete enumeration (both tiers): every fully specified (MatrixCoefficients, ColorPrimaries, TransferCharacteristic) triple (14 x 13 x 18 = 3276) x 12 conversions on a 4x4 image, repeated for 14 shapes: subsampling 4:4:4, 4:2:0, 4:2:2, 4:1:0 (2,2), 4:4:0 x limited/full x image content {colourful in-gamut, achromatic (grey pixels / neutral chroma), out-of-gamut floats / extreme codes} (YUV<->RGB in u8 and u16 storage, gamma<->linear, YUV<->linear, YUV<->XYB, RGB<->XYB). Oracle: no panic; the 7 x 11 x 14 supported triples succeed everywhere; an error is an Unsupported* variant naming a field the conversion uses and that is responsible (counterfactual: replacing only that field by BT.709/BT.1886 removes that error); forward Ok iff reverse Ok; YUV<->RGB and gamma<->linear pairs fail with the same error; with a standard matrix YUV<->RGB output is bit-identical for all transfer/primaries values. The triples of each shape are visited in one of four orders (transfer, primaries or matrix varying fastest, shuffled). In addition: all 33,124 ordered pairs of (matrix, primaries) configurations and all 10,732,176 ordered pairs of full (matrix, primaries, transfer) triples as two-step histories (the second conversion right after the first vs in isolation on a fresh thread), the gamma<->linear / RGB<->XYB contract on real-size images (up to 3840x2160; thorough 3841x2161 and 4097x4097), and the YUV<->RGB outcome of every (matrix, primaries) pair on real-size frames (256x256 and 1024x72 unpadded, 321x207 padded; thorough also 1920x1080 and 3840x2160; u8 and u16 storage) compared with its outcome on a 4x4 frame. A case = one (triple, shape) (all 12 conversions and their counterfactuals); non-trivial = triple outside the all-supported set; distinct by construction";
