//! C06 Primaries conversion equals the CIE derivation and keeps white white.

use crate::engine::*;
use crate::gen::sup_primaries;
use crate::oracle::{self, cp_from_name, cp_name, SUP_CP};
use proptest::prelude::*;
use serde_json::{json, Value};
use yuvxyb::{ColorPrimaries as CP, LinearRgb, MatrixCoefficients as MC, Rgb, TransferCharacteristic as TC, Yuv};

#[derive(Debug, Clone)]
pub struct Case {
    pub p: CP,
    /// true: P -> BT.709 (LinearRgb::try_from(Rgb{Linear,P})); false: BT.709 -> P
    pub to_709: bool,
    pub w: usize,
    pub h: usize,
    pub px: Px,
    /// unrelated YUV decode / encode calls (matrix derived from these primaries) made just before the conversion
    pub before: Vec<(MC, CP)>,
}

/// matrix coefficients whose constants the library derives from the colour primaries
pub const DERIVED_MC: [MC; 5] = [MC::Identity, MC::BT2020ConstantLuminance, MC::ChromaticityDerivedNonConstantLuminance, MC::ChromaticityDerivedConstantLuminance, MC::ICtCp];

/// What a program typically does around a primaries conversion: decode a YUV picture and encode one,
/// with a matrix derived from primaries `p`. Results and errors are ignored here (C01/C02/C14 judge
/// them); C06 only requires that the primaries conversions made afterwards are unaffected.
pub fn yuv_calls(m: MC, p: CP) {
    {
        let mut log = YUV_CALLS.lock().unwrap_or_else(|e| e.into_inner());
        if !log.contains(&(m, p)) {
            log.push((m, p));
        }
    }
    let _ = catch(|| {
        let cfg = crate::api::cfg(m, TC::BT1886, p, 8, false, (0, 0));
        let codes = [[16u16, 128, 128], [235, 128, 128], [81, 90, 240], [145, 54, 34]];
        if let Ok(y) = Yuv::<u8>::new(crate::api::frame444::<u8>(&codes, 2, 2, 0, 0), cfg) {
            if let Ok(rgb) = Rgb::try_from(&y) {
                let _ = Yuv::<u8>::try_from((rgb, cfg));
            }
        }
    });
}
#[derive(Debug, Clone)]
pub enum Px {
    Seeded { stratum: u8, seed: u64 },
    Explicit(Vec<[f32; 3]>),
}

/// strata over [-0.5,2]^3: 0 uniform; 1 unit cube; 2 single axis; 3 greys; 4 lattice {-0.5,0,1,2}; 5 white and near-white;
/// 6 near-neutral (grey + per-component perturbations of one scale, log-uniform 1e-7..1e-2)
pub fn expand(stratum: u8, seed: u64, n: usize) -> Vec<[f32; 3]> {
    let mut e = Expand(seed);
    let mut out = Vec::with_capacity(n);
    for _ in 0..n {
        let p: [f64; 3] = match stratum % 7 {
            6 => {
                let g = e.range_f64(-0.4, 1.9);
                let sc = 10f64.powf(e.range_f64(-7.0, -2.0));
                [g + sc * (2.0 * e.unit() - 1.0), g + sc * (2.0 * e.unit() - 1.0), g + sc * (2.0 * e.unit() - 1.0)]
            }
            0 => [e.range_f64(-0.5, 2.0), e.range_f64(-0.5, 2.0), e.range_f64(-0.5, 2.0)],
            1 => [e.unit(), e.unit(), e.unit()],
            2 => {
                let mut p = [0.0; 3];
                p[e.below(3) as usize] = e.range_f64(-0.5, 2.0);
                p
            }
            3 => {
                let g = e.range_f64(-0.5, 2.0);
                [g, g, g]
            }
            4 => {
                let l = [-0.5, 0.0, 1.0, 2.0, 0.5];
                [*e.pick(&l), *e.pick(&l), *e.pick(&l)]
            }
            _ => {
                if e.below(2) == 0 {
                    [1.0, 1.0, 1.0]
                } else {
                    [1.0 + e.range_f64(-0.01, 0.01), 1.0 + e.range_f64(-0.01, 0.01), 1.0 + e.range_f64(-0.01, 0.01)]
                }
            }
        };
        out.push([p[0] as f32, p[1] as f32, p[2] as f32]);
    }
    out
}

impl Case {
    pub fn pixels(&self) -> Vec<[f32; 3]> {
        match &self.px {
            Px::Seeded { stratum, seed } => {
                let mut px = expand(*stratum, *seed, self.w * self.h);
                if seed % 3 == 0 {
                    let (p, to) = (self.p, self.to_709);
                    let fb = move |q: [f32; 3]| -> Option<[f32; 3]> { lib_convert(p, to, &[q], 1, 1).ok().map(|o| o[0]) };
                    let dom = |q: [f32; 3]| -> bool { q.iter().all(|x| x.is_finite() && *x >= -0.5 && *x <= 2.0) };
                    correlate_px(&mut px, *seed, Some(&fb), &dom);
                }
                if seed % 4 == 1 {
                    let (p, to) = (self.p, self.to_709);
                    let fb = move |q: [f32; 3]| -> Option<[f32; 3]> { lib_convert(p, to, &[q], 1, 1).ok().map(|o| o[0]) };
                    let dom = |q: [f32; 3]| -> bool { q.iter().all(|x| x.is_finite() && *x >= -0.5 && *x <= 2.0) };
                    correlate_rows(&mut px, self.w, self.h, *seed, &fb, &dom);
                }
                px
            }
            Px::Explicit(v) => v.clone(),
        }
    }
    fn json_with(&self, px: &[[f32; 3]], w: usize, h: usize) -> Value {
        // the distinct YUV calls this process has made so far, in order of first occurrence (state that outlives a
        // call is process-wide, so the replay file carries the history, not only this case's own calls)
        let before: Vec<Value> = YUV_CALLS.lock().unwrap_or_else(|e| e.into_inner()).iter().map(|(m, p)| json!([oracle::mc_name(*m), cp_name(*p)])).collect();
        json!({"prop":"C06","primaries":cp_name(self.p),"to_709":self.to_709,"w":w,"h":h,"pixels": px.iter().map(|p| px2j(*p)).collect::<Vec<_>>(), "after_yuv_calls": before})
    }
}

pub fn strategy() -> BoxedStrategy<Case> {
    (sup_primaries(), any::<bool>(), 0u8..7, any::<u64>(), 1usize..=32, 1usize..=8)
        .prop_map(|(p, to_709, stratum, seed, w, h)| {
            // one case in five is preceded by YUV calls with a primaries-derived matrix (same or other primaries)
            let mut before = Vec::new();
            if seed % 5 == 3 {
                let mut e = Expand(seed ^ 0xB4);
                for _ in 0..1 + e.below(2) {
                    let q = if e.below(2) == 0 { p } else { *e.pick(&SUP_CP) };
                    before.push((*e.pick(&DERIVED_MC), q));
                }
            }
            Case { p, to_709, w, h, px: Px::Seeded { stratum, seed }, before }
        })
        .boxed()
}

/// the distinct YUV calls made by this process, in order of first occurrence (recorded so that a violation's replay
/// file reproduces the history in a fresh process)
static YUV_CALLS: std::sync::Mutex<Vec<(MC, CP)>> = std::sync::Mutex::new(Vec::new());

/// For a seed-chosen half of the primaries the first use in this process is a YUV call with a matrix derived
/// from them; for the other half it is the primaries conversion itself (the generated cases interleave both later).
fn prelude(seed: u64) {
    let mut e = Expand(seed ^ 0x06_0FF);
    let mut calls = Vec::new();
    for p in SUP_CP.iter() {
        if e.below(2) == 0 {
            calls.push((*e.pick(&DERIVED_MC), *p));
        }
    }
    for (m, p) in &calls {
        yuv_calls(*m, *p);
    }
}

pub fn lib_convert(p: CP, to_709: bool, px: &[[f32; 3]], w: usize, h: usize) -> Result<Vec<[f32; 3]>, String> {
    if to_709 {
        let rgb = Rgb::new(px.to_vec(), w, h, TC::Linear, p).map_err(|e| format!("{e:?}"))?;
        let l = LinearRgb::try_from(rgb).map_err(|e| format!("{}->BT709 failed: {e:?}", cp_name(p)))?;
        if l.width() != w || l.height() != h || l.data().len() != px.len() {
            return Err("dimensions changed".into());
        }
        Ok(l.into_data())
    } else {
        let l = LinearRgb::new(px.to_vec(), w, h).map_err(|e| format!("{e:?}"))?;
        let rgb = Rgb::try_from((l, TC::Linear, p)).map_err(|e| format!("BT709->{} failed: {e:?}", cp_name(p)))?;
        if rgb.width() != w || rgb.height() != h || rgb.data().len() != px.len() {
            return Err("dimensions changed".into());
        }
        if rgb.primaries() != p || rgb.transfer() != TC::Linear {
            return Err(format!("labels changed: {:?} {:?}", rgb.transfer(), rgb.primaries()));
        }
        Ok(rgb.into_data())
    }
}

pub fn check(case: &Case, st: &mut Stats) -> Result<(), Violation> {
    for (m, p) in &case.before {
        yuv_calls(*m, *p);
    }
    if !case.before.is_empty() {
        st.class("preceded_by_yuv_calls", 1);
    }
    let px = case.pixels();
    let sig = format!("C06:primaries:{}:{}", cp_name(case.p), if case.to_709 { "to709" } else { "from709" });
    let fail = |msg: String, p: &[[f32; 3]], w: usize, h: usize| Violation { signature: sig.clone(), message: msg, case: case.json_with(p, w, h) };
    if let Some(k) = prior_perm_kind(px.iter().flat_map(|p| p.iter().map(|c| c.to_bits())), px.len()) {
        let q = permuted(&px, k, case.w);
        let _ = catch(|| lib_convert(case.p, case.to_709, &q, case.w, case.h).map(|_| ()));
        st.class("preceded_by_a_permutation_of_the_same_image", 1);
    }
    let got = match catch(|| lib_convert(case.p, case.to_709, &px, case.w, case.h)) {
        Err(p) => return Err(fail(format!("panic: {p}"), &px, case.w, case.h)),
        Ok(Err(e)) => return Err(fail(e, &px, case.w, case.h)),
        Ok(Ok(g)) => g,
    };
    st.evaluations += 1;
    let m = if case.to_709 { oracle::primaries_matrix(case.p, CP::BT709) } else { oracle::primaries_matrix(CP::BT709, case.p) };
    // there and back
    let back = match catch(|| lib_convert(case.p, !case.to_709, &got, case.w, case.h)) {
        Ok(Ok(b)) => b,
        other => return Err(fail(format!("reverse conversion failed: {other:?}"), &px, case.w, case.h)),
    };
    let mut nontrivial = false;
    for (i, p) in px.iter().enumerate() {
        if case.p == CP::BT709 {
            for j in 0..3 {
                if got[i][j].to_bits() != p[j].to_bits() {
                    return Err(fail(format!("identical primaries changed the data: {:?} -> {:?}", p, got[i]), &[*p], 1, 1));
                }
            }
        }
        let want = oracle::mat_vec(m, [p[0] as f64, p[1] as f64, p[2] as f64]);
        for j in 0..3 {
            let d = (f64::from(got[i][j]) - want[j]).abs();
            let tol = 1e-5 * want[j].abs().max(1.0);
            if !(d <= tol) {
                return Err(fail(
                    format!("{} {} pixel {:?} component {j}: got {:e}, CIE derivation gives {:e} (|diff| {:e} > {:e})", cp_name(case.p), if case.to_709 { "->BT709" } else { "<-BT709" }, p, got[i][j], want[j], d, tol),
                    &[*p],
                    1,
                    1,
                ));
            }
            st.max("max_rel_err", d / want[j].abs().max(1.0));
            let rb = (f64::from(back[i][j]) - f64::from(p[j])).abs();
            if !(rb <= 1e-5) {
                return Err(fail(format!("{} there-and-back pixel {:?} component {j}: came back as {:e} (|diff| {:e} > 1e-5)", cp_name(case.p), p, back[i][j], rb), &[*p], 1, 1));
            }
            st.max("max_there_and_back_err", rb);
        }
        if *p == [1.0, 1.0, 1.0] {
            for j in 0..3 {
                let d = (f64::from(got[i][j]) - 1.0).abs();
                if !(d <= 1e-5) {
                    return Err(fail(format!("{} white (1,1,1) maps to {:?}", cp_name(case.p), got[i]), &[*p], 1, 1));
                }
                st.max("max_white_err", d);
            }
            st.class("white_pixels", 1);
        }
        if p[0] != p[1] || p[1] != p[2] {
            nontrivial = true;
        }
    }
    st.comparisons += px.len() as u64;
    st.class(&format!("primaries_{}", cp_name(case.p)), 1);
    st.class(if case.to_709 { "dir_to_709" } else { "dir_from_709" }, 1);
    if nontrivial && case.p != CP::BT709 {
        let bits: Vec<[u32; 3]> = px.iter().map(|p| [p[0].to_bits(), p[1].to_bits(), p[2].to_bits()]).collect();
        st.nontrivial(&(cp_name(case.p), case.to_709, bits));
    }
    st.sample(|| case.json_with(&px[..px.len().min(3)], px.len().min(3), 1));
    Ok(())
}

pub fn run(ctx: &Ctx, st: &mut Stats) -> Vec<Violation> {
    prelude(ctx.seed);
    st.class("primaries_first_used_by_a_yuv_call", YUV_CALLS.lock().map(|v| v.len() as u64).unwrap_or(0));
    let mut v = run_proptest(ctx, st, "random", ctx.cases(60_000, 6_000_000), strategy, check);
    if !v.is_empty() {
        return v;
    }
    // real-size images for a few primaries / directions
    let sizes: Vec<(usize, usize)> = if ctx.light { vec![(257, 255)] } else { crate::gen::large_sizes(ctx.quick()) };
    let seed0 = ctx.seed;
    v.extend(par_sweep(ctx, st, sizes.len() as u64 * 2, |lo, hi, st| {
        for j in lo..hi {
            let (w, h) = sizes[(j / 2) as usize];
            let case = Case { p: SUP_CP[1 + (j as usize * 3) % 10], to_709: j % 2 == 0, w, h, px: Px::Seeded { stratum: [0u8, 6][(j % 2) as usize], seed: mix64(seed0 ^ (j << 8) ^ 0x06) }, before: vec![] };
            let mut local = Stats::new();
            local.sample_budget = 0;
            if let Err(v) = check(&case, &mut local) {
                return Some(v);
            }
            st.evaluations += 1;
            st.comparisons += (w * h) as u64;
            st.nontrivial_by_construction += 1;
            st.class("large_images", 1);
        }
        None
    }));
    if !v.is_empty() {
        return v;
    }
    // enumerated: every primaries x direction x lattice on [-0.5,2]^3 (incl. white)
    let side: usize = if ctx.light { 11 } else { ctx.pick(33, 201) };
    let jobs: Vec<(CP, bool)> = SUP_CP.iter().flat_map(|p| [(*p, true), (*p, false)]).collect();
    v.extend(par_sweep(ctx, st, (jobs.len() * side) as u64, |lo, hi, st| {
        for idx in lo..hi {
            let (p, to_709) = jobs[idx as usize / side];
            let zi = idx as usize % side;
            let f = |i: usize| (-0.5 + 2.5 * i as f64 / (side - 1) as f64) as f32;
            let mut px = Vec::with_capacity(side * side + 1);
            for yi in 0..side {
                for xi in 0..side {
                    px.push([f(xi), f(yi), f(zi)]);
                }
            }
            px.push([1.0, 1.0, 1.0]);
            let n = px.len();
            let case = Case { p, to_709, w: n, h: 1, px: Px::Explicit(px), before: vec![] };
            let mut local = Stats::new();
            local.sample_budget = 0;
            if let Err(v) = check(&case, &mut local) {
                return Some(v);
            }
            st.evaluations += 1;
            st.comparisons += n as u64;
            st.nontrivial_by_construction += if p != CP::BT709 { 1 } else { 0 };
            st.class("lattice_slices", 1);
            for (k, v) in local.maxima {
                st.max(&k, v);
            }
        }
        None
    }));
    v
}

pub fn replay(v: &Value) -> Result<(), String> {
    let px: Vec<[f32; 3]> = v.get("pixels").and_then(|p| p.as_array()).ok_or("pixels")?.iter().filter_map(j2px).collect();
    let case = Case {
        p: cp_from_name(v.get("primaries").and_then(|s| s.as_str()).ok_or("primaries")?).ok_or("bad primaries")?,
        to_709: v.get("to_709").and_then(|b| b.as_bool()).unwrap_or(true),
        w: v.get("w").and_then(|x| x.as_u64()).unwrap_or(px.len() as u64) as usize,
        h: v.get("h").and_then(|x| x.as_u64()).unwrap_or(1) as usize,
        px: Px::Explicit(px),
        before: v
            .get("after_yuv_calls")
            .and_then(|a| a.as_array())
            .map(|a| a.iter().filter_map(|c| Some((oracle::mc_from_name(c.get(0)?.as_str()?)?, cp_from_name(c.get(1)?.as_str()?)?))).collect())
            .unwrap_or_default(),
    };
    check(&case, &mut Stats::new()).map_err(|v| v.message)
}

pub const RULE: &str = "cases = (primaries in 11 supported, direction to/from BT.709, w x h image of linear pixels of [-0.5,2]^3 from 7 strata: uniform, unit cube, single axis, greys, near-neutral, lattice, white/near-white; a third of the images with related neighbours incl. fed-back pixels and slow ramps; call history: for a seed-chosen half of the primaries the first use in the process is a YUV decode/encode with a matrix derived from them, and one case in five is directly preceded by 1-2 such YUV calls) generated by proptest, plus an enumerated lattice per primaries and direction; oracle = M_out^-1 * Bradford * M_in built in f64 from the H.273 chromaticities (tol 1e-5*max(1,|v|)), white -> white within 1e-5, there-and-back within 1e-5, BT.709<->BT.709 bitwise; non-trivial = non-BT.709 primaries and an image containing a non-grey pixel; distinct = by hash of (primaries, direction, pixel bits)";
