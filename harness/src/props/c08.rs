//! C08 YUV->RGB->YUV is a lossless code round trip.

use crate::api::{cfg, cfg_from_json, cfg_json, codes444, frame444_pads};
use crate::engine::*;
use crate::gen::{depth_storage, expand_codes, std_matrix};
use crate::oracle::{mc_name, STD_MC};
use proptest::prelude::*;
use serde_json::{json, Value};
use yuvxyb::{ColorPrimaries as CP, Pixel, Rgb, TransferCharacteristic as TC, Yuv, YuvConfig};

pub use super::c01::Codes;

#[derive(Debug, Clone)]
pub struct Case {
    pub cfg: YuvConfig,
    pub u8_storage: bool,
    pub codes: Codes,
    /// rows and per-plane paddings of the source frame (None: one row, no padding)
    pub layout: Option<(usize, [(usize, usize); 3])>,
    /// a second frame (same storage type, config differing in matrix / range / depth) whose round trip is interleaved
    /// with this one: decode A, decode B, encode A, encode B
    pub partner: Option<Box<Case>>,
}
impl Case {
    pub fn expand(&self) -> Vec<[u16; 3]> {
        let mut v = match &self.codes {
            Codes::Seeded { stratum, seed, n } => expand_codes(self.cfg.bit_depth, *stratum, *seed, *n),
            Codes::Explicit(v) => v.clone(),
        };
        let (w, h, _) = self.dims(v.len());
        v.truncate(w * h);
        v
    }
    pub fn dims(&self, n: usize) -> (usize, usize, [(usize, usize); 3]) {
        match self.layout {
            Some((h, pads)) => {
                let h = h.clamp(1, n.max(1));
                ((n / h).max(1), h, pads)
            }
            None => (n, 1, [(0, 0); 3]),
        }
    }
    fn json_with(&self, codes: &[[u16; 3]]) -> Value {
        let mut v = self.json_plain(codes);
        if let Some(p) = &self.partner {
            v["partner"] = p.json_plain(&p.expand());
        }
        v
    }
    fn from_json(v: &Value) -> Result<Case, String> {
        let cfg = cfg_from_json(v.get("cfg").ok_or("cfg")?).ok_or("bad cfg")?;
        let codes = match v.get("seeded") {
            Some(sd) => Codes::Seeded {
                stratum: sd.get("stratum").and_then(|x| x.as_u64()).ok_or("stratum")? as u8,
                seed: sd.get("seed").and_then(|x| x.as_str()).and_then(|x| x.parse().ok()).ok_or("seed")?,
                n: sd.get("n").and_then(|x| x.as_u64()).ok_or("n")? as usize,
            },
            None => Codes::Explicit(serde_json::from_value(v.get("codes").ok_or("codes")?.clone()).map_err(|e| e.to_string())?),
        };
        Ok(Case {
            cfg,
            u8_storage: v.get("storage").and_then(|s| s.as_str()) == Some("u8"),
            codes,
            layout: v.get("layout").and_then(|l| serde_json::from_value(l.clone()).ok()).flatten(),
            partner: match v.get("partner") {
                Some(p) => Some(Box::new(Case::from_json(p)?)),
                None => None,
            },
        })
    }
    fn json_plain(&self, codes: &[[u16; 3]]) -> Value {
        if codes.len() > 4096 {
            if let Codes::Seeded { stratum, seed, n } = &self.codes {
                return json!({"prop":"C08","cfg":cfg_json(&self.cfg),"storage": if self.u8_storage {"u8"} else {"u16"},
                    "seeded": {"stratum": stratum, "seed": seed.to_string(), "n": n}, "layout": self.layout});
            }
        }
        json!({"prop":"C08","cfg":cfg_json(&self.cfg),"storage": if self.u8_storage {"u8"} else {"u16"}, "codes": codes, "layout": if codes.len() == 1 { None } else { self.layout }})
    }
}

pub fn strategy() -> BoxedStrategy<Case> {
    (std_matrix(), any::<bool>(), depth_storage(), 0u8..7, any::<u64>(), 1usize..=256)
        .prop_map(|(mc, full, (depth, u8s), stratum, seed, n)| {
            let c = cfg(mc, TC::BT1886, CP::BT709, depth, full, (0, 0));
            // one case in four: a pair of interleaved round trips
            let mut e = Expand(seed ^ 0x0808);
            let partner = if e.below(4) == 0 {
                let mut pc = c;
                match e.below(4) {
                    0 => pc.matrix_coefficients = *e.pick(&STD_MC),
                    1 => pc.full_range = !pc.full_range,
                    2 if !u8s => pc.bit_depth = 8 + e.below(9) as u8,
                    _ => {
                        pc.matrix_coefficients = *e.pick(&STD_MC);
                        pc.full_range = e.below(2) == 0;
                    }
                }
                let pn = if e.below(2) == 0 { n } else { 1 + e.below(64) as usize };
                let ps = e.next_u64();
                Some(Box::new(Case { cfg: pc, u8_storage: u8s, codes: Codes::Seeded { stratum: e.below(6) as u8, seed: ps, n: pn }, layout: Some((crate::gen::layout_for(ps, pn).1, [(0, 0); 3])), partner: None }))
            } else {
                None
            };
            Case {
                cfg: c,
                u8_storage: u8s,
                codes: Codes::Seeded { stratum, seed, n },
                layout: {
                    let (_, h, pads) = crate::gen::layout_for(seed, n);
                    Some((h, pads))
                },
                partner,
            }
        })
        .boxed()
}

fn roundtrip<T: Pixel>(c: &YuvConfig, codes: &[[u16; 3]]) -> Result<(Vec<[u16; 3]>, YuvConfig, usize, usize), String> {
    roundtrip_layout::<T>(c, codes, codes.len(), 1, [(0, 0); 3])
}

fn roundtrip_layout<T: Pixel>(c: &YuvConfig, codes: &[[u16; 3]], w: usize, h: usize, pads: [(usize, usize); 3]) -> Result<(Vec<[u16; 3]>, YuvConfig, usize, usize), String> {
    let frame = frame444_pads::<T>(codes, w, h, pads);
    let yuv = Yuv::<T>::new(frame, *c).map_err(|e| format!("Yuv::new rejected a well-formed frame: {e:?}"))?;
    let rgb = Rgb::try_from(&yuv).map_err(|e| format!("decode failed: {e:?}"))?;
    let back = Yuv::<T>::try_from((rgb, yuv.config())).map_err(|e| format!("encode failed: {e:?}"))?;
    Ok((codes444(&back), back.config(), back.width(), back.height()))
}

type Rt = Result<(Vec<[u16; 3]>, YuvConfig, usize, usize), String>;

/// two round trips interleaved: decode A, decode B, encode A, encode B
fn roundtrip_pair<T: Pixel>(a: &Case, b: &Case) -> (Rt, Rt) {
    let dec = |k: &Case| -> Result<(Yuv<T>, Rgb), String> {
        let codes = k.expand();
        let (w, h, pads) = k.dims(codes.len());
        let yuv = Yuv::<T>::new(frame444_pads::<T>(&codes, w, h, pads), k.cfg).map_err(|e| format!("Yuv::new rejected a well-formed frame: {e:?}"))?;
        let rgb = Rgb::try_from(&yuv).map_err(|e| format!("decode failed: {e:?}"))?;
        Ok((yuv, rgb))
    };
    let enc = |d: Result<(Yuv<T>, Rgb), String>| -> Rt {
        let (yuv, rgb) = d?;
        let back = Yuv::<T>::try_from((rgb, yuv.config())).map_err(|e| format!("encode failed: {e:?}"))?;
        Ok((codes444(&back), back.config(), back.width(), back.height()))
    };
    let da = dec(a);
    let db = dec(b);
    let ra = enc(da);
    let rb = enc(db);
    (ra, rb)
}

/// expected code after the round trip: clamp to the legal range for limited-range data
pub fn expected(c: &YuvConfig, code: [u16; 3]) -> [u16; 3] {
    if c.full_range {
        code
    } else {
        let k = 1u32 << (c.bit_depth - 8);
        [
            (code[0] as u32).clamp(16 * k, 235 * k) as u16,
            (code[1] as u32).clamp(16 * k, 240 * k) as u16,
            (code[2] as u32).clamp(16 * k, 240 * k) as u16,
        ]
    }
}

pub fn check(case: &Case, st: &mut Stats) -> Result<(), Violation> {
    match &case.partner {
        None => judge(case, case, None, st),
        Some(p) => {
            let (ra, rb) = match catch(|| if case.u8_storage { roundtrip_pair::<u8>(case, p) } else { roundtrip_pair::<u16>(case, p) }) {
                Ok(r) => r,
                Err(pn) => (Err(format!("panic: {pn}")), Ok((Vec::new(), p.cfg, 0, 0))),
            };
            judge(case, case, Some(ra), st)?;
            judge(p, case, Some(rb), st)?;
            st.class("interleaved_pairs", 1);
            Ok(())
        }
    }
}

/// judge one round trip; `given`: the result when it was already computed as part of an interleaved pair
fn judge(case: &Case, top: &Case, given: Option<Rt>, st: &mut Stats) -> Result<(), Violation> {
    let codes = case.expand();
    let c = &case.cfg;
    let interleaved = top.partner.is_some();
    let sig = format!(
        "C08:roundtrip:{}:{}:{}",
        mc_name(c.matrix_coefficients),
        if c.full_range { "full" } else { "limited" },
        if case.u8_storage { "u8" } else { "u16" }
    );
    let fail = |msg: String, codes: &[[u16; 3]]| {
        if interleaved {
            // an interleaved pair is reported whole
            Violation { signature: sig.clone(), message: format!("{msg} [in a pair of interleaved round trips: decode A, decode B, encode A, encode B]"), case: top.json_with(&top.expand()) }
        } else {
            Violation { signature: sig.clone(), message: msg, case: case.json_with(codes) }
        }
    };
    let (w0, h0, pads) = case.dims(codes.len());
    let res = match given {
        Some(r) => Ok(r),
        None => catch(|| if case.u8_storage { roundtrip_layout::<u8>(c, &codes, w0, h0, pads) } else { roundtrip_layout::<u16>(c, &codes, w0, h0, pads) }),
    };
    let (back, cfg2, w, h) = match res {
        Err(p) => return Err(fail(format!("panic: {p}"), &codes)),
        Ok(Err(e)) => return Err(fail(e, &codes)),
        Ok(Ok(r)) => r,
    };
    st.evaluations += 1;
    if w != w0 || h != h0 || cfg2 != *c {
        return Err(fail(format!("dims/config changed: {w}x{h} {:?}", cfg_json(&cfg2)), &codes));
    }
    let mut nontrivial = false;
    let half = 1u16 << (c.bit_depth - 1);
    for (i, code) in codes.iter().enumerate() {
        let want = expected(c, *code);
        for j in 0..3 {
            if back[i][j] != want[j] {
                // the single tolerated deviation: full-range chroma code 0 may come back as 1
                if c.full_range && j > 0 && code[j] == 0 && back[i][j] == 1 {
                    st.class("tolerated_fullrange_chroma_0_to_1", 1);
                    continue;
                }
                let bad = |q: [u16; 3]| -> bool {
                    let r = if case.u8_storage { roundtrip::<u8>(c, &[q]) } else { roundtrip::<u16>(c, &[q]) };
                    match r {
                        Ok((b, _, _, _)) => {
                            let w = expected(c, q);
                            (0..3).any(|k| b[0][k] != w[k] && !(c.full_range && k > 0 && q[k] == 0 && b[0][k] == 1))
                        }
                        Err(_) => false,
                    }
                };
                if interleaved || !bad(*code) {
                    return Err(fail(
                        format!("triple #{i} {:?} plane {}: came back as {} (expected {}) only inside this {w0}x{h0} image (paddings {:?}); cfg {}", code, j, back[i][j], want[j], pads, cfg_json(c)),
                        &codes,
                    ));
                }
                let small = minimize_codes(*code, [half, half, half], bad);
                return Err(fail(
                    format!("triple {:?} plane {}: came back as {} (expected {}) cfg {}; shrunk reproduction {:?}", code, j, back[i][j], want[j], cfg_json(c), small),
                    &[small],
                ));
            }
        }
        if want != *code {
            st.class("clamped_to_legal_range", 1);
        }
        if code[1] != half || code[2] != half {
            nontrivial = true;
        }
    }
    st.comparisons += codes.len() as u64 * 3;
    st.class(&format!("matrix_{}", mc_name(c.matrix_coefficients)), 1);
    st.class(&format!("depth_{}", c.bit_depth), 1);
    st.class(if case.u8_storage { "storage_u8" } else { "storage_u16" }, 1);
    if nontrivial {
        st.nontrivial(&(mc_name(c.matrix_coefficients), c.full_range, c.bit_depth, case.u8_storage, &codes));
    }
    st.sample(|| case.json_with(&codes[..codes.len().min(4)]));
    Ok(())
}

/// real-size frames (see gen::LARGE_SIZES); as in C01
fn large_frames(ctx: &Ctx, st: &mut Stats) -> Vec<Violation> {
    let sizes: Vec<(usize, usize)> = if ctx.light { vec![(256, 128), (257, 255), (521, 511)] } else { crate::gen::large_sizes(ctx.quick()) };
    let seed0 = ctx.seed;
    // one job = one size and one depth/storage; its three ranges run back to back on the same thread
    par_sweep(ctx, st, sizes.len() as u64 * 4, |lo, hi, st| {
        for jj in lo..hi {
            let j = jj / 4;
            let (w, h) = sizes[j as usize];
            let mut k = (jj % 4) * 3;
            for (depth, u8s) in [[(8u8, true), (16, false), (8, false), (10, false)][(jj % 4) as usize]] {
                for full in [false, true, false] {
                    let mc = STD_MC[((j + k) % 7) as usize];
                    k += 1;
                    let case = Case {
                        cfg: cfg(mc, TC::BT1886, CP::BT709, depth, full, (0, 0)),
                        u8_storage: u8s,
                        codes: Codes::Seeded { stratum: [1u8, 5, 0, 3][(k % 4) as usize], seed: mix64(seed0 ^ (j << 8) ^ k), n: w * h },
                        layout: Some((h, [(0, 0), ((k % 3) as usize, 0), (0, (k % 2) as usize)])),
                        partner: None,
                    };
                    let mut local = Stats::new();
                    local.sample_budget = 0;
                    if let Err(v) = check(&case, &mut local) {
                        return Some(v);
                    }
                    st.evaluations += 1;
                    st.comparisons += (w * h * 3) as u64;
                    st.nontrivial_by_construction += 1;
                    st.class("large_frames", 1);
                }
            }
        }
        None
    })
}

/// Fresh-thread histories: a decode + encode with a matrix *derived from primaries* (every derived matrix x every
/// supported primaries set) right before the first use of a standard matrix on that thread. Tables indexed by H.273
/// code points would let the primaries' code alias the standard matrix with the same number.
fn after_derived_matrix_calls(ctx: &Ctx, st: &mut Stats) -> Vec<Violation> {
    if ctx.light {
        return Vec::new();
    }
    let mut jobs = Vec::new();
    for m in STD_MC {
        for d in super::c06::DERIVED_MC {
            for p in crate::oracle::SUP_CP {
                jobs.push((m, d, p));
            }
        }
    }
    let seed0 = ctx.seed;
    par_sweep(ctx, st, jobs.len() as u64, |lo, hi, st| {
        for j in lo..hi {
            let (m, d, p) = jobs[j as usize];
            let depth = [8u8, 10, 8, 12][(j % 4) as usize];
            let c = cfg(m, TC::BT1886, CP::BT709, depth, j % 2 == 1, (0, 0));
            let case = Case { cfg: c, u8_storage: j % 2 == 0 && depth == 8, codes: Codes::Seeded { stratum: (j % 7) as u8, seed: mix64(seed0 ^ j ^ 0xDEC0), n: 96 }, layout: Some((2, [(0, 0); 3])), partner: None };
            let r = std::thread::scope(|sc| {
                sc.spawn(|| {
                    super::c06::yuv_calls(d, p);
                    let mut local = Stats::new();
                    local.sample_budget = 0;
                    check(&case, &mut local).map(|_| local.comparisons)
                })
                .join()
            });
            match r {
                Ok(Ok(n)) => st.comparisons += n,
                Ok(Err(mut v)) => {
                    v.message = format!("{} [first use of this matrix on a fresh thread, right after a decode and an encode with matrix {:?} and primaries {:?}]", v.message, d, p);
                    return Some(v);
                }
                Err(_) => return Some(Violation { signature: "panic".into(), message: "history thread panicked".into(), case: Value::Null }),
            }
            st.evaluations += 1;
            st.nontrivial_by_construction += 1;
            st.class("fresh_thread_histories_after_derived_matrix_calls", 1);
        }
        None
    })
}

/// uniformly tinted frames of power-of-two sizes: both chroma planes constant at extreme / neutral values, luma
/// random - whole-plane statistics (sums that wrap, "is this frame grey" shortcuts) are extreme exactly there
fn tinted_frames(ctx: &Ctx, st: &mut Stats) -> Vec<Violation> {
    if ctx.light {
        return Vec::new();
    }
    let sizes = crate::gen::pow2_sizes(ctx.quick());
    let seed0 = ctx.seed;
    par_sweep(ctx, st, sizes.len() as u64 * 32, |lo, hi, st| {
        for j in lo..hi {
            let (w, h) = sizes[(j / 32) as usize];
            let (depth, u8s) = [(8u8, true), (16, false), (12, false), (10, false)][((j / 8) % 4) as usize];
            let pattern = j % 8;
            let case = Case {
                cfg: cfg(STD_MC[(j % 7) as usize], TC::BT1886, CP::BT709, depth, j % 3 == 0, (0, 0)),
                u8_storage: u8s,
                codes: Codes::Seeded { stratum: 6, seed: (mix64(seed0 ^ j ^ 0x71D7) & !7) | pattern, n: w * h },
                layout: Some((h, [(0, 0); 3])),
                partner: None,
            };
            let mut local = Stats::new();
            local.sample_budget = 0;
            if let Err(v) = check(&case, &mut local) {
                return Some(v);
            }
            st.evaluations += 1;
            st.comparisons += (w * h * 3) as u64;
            st.nontrivial_by_construction += 1;
            st.class("tinted_pow2_frames", 1);
        }
        None
    })
}

pub fn run(ctx: &Ctx, st: &mut Stats) -> Vec<Violation> {
    let mut v = run_proptest(ctx, st, "random", ctx.cases(30_000, 300_000), strategy, check);
    if !v.is_empty() {
        return v;
    }
    v.extend(large_frames(ctx, st));
    if !v.is_empty() {
        return v;
    }
    v.extend(tinted_frames(ctx, st));
    if !v.is_empty() {
        return v;
    }
    v.extend(after_derived_matrix_calls(ctx, st));
    if !v.is_empty() {
        return v;
    }
    v.extend(exhaustive_8bit(ctx, st));
    if !v.is_empty() {
        return v;
    }
    v.extend(plane_sweeps(ctx, st));
    v
}

fn exhaustive_8bit(ctx: &Ctx, st: &mut Stats) -> Vec<Violation> {
    let ystep: u64 = if ctx.light { 17 } else { ctx.pick(5, 1) };
    let nconf = (STD_MC.len() * 2 * 2) as u64;
    let ys: Vec<u64> = (0..256).step_by(ystep as usize).collect();
    let total = nconf * ys.len() as u64;
    let out = par_sweep(ctx, st, total, |lo, hi, st| {
        for idx in lo..hi {
            let ci = idx / ys.len() as u64;
            let y = ys[(idx % ys.len() as u64) as usize] as u16;
            let mc = STD_MC[(ci / 4) as usize];
            let full = (ci / 2) % 2 == 1;
            let u8s = ci % 2 == 1;
            let mut codes = Vec::with_capacity(65536);
            for u in 0..256u16 {
                for v in 0..256u16 {
                    codes.push([y, u, v]);
                }
            }
            let case = Case { cfg: cfg(mc, TC::BT1886, CP::BT709, 8, full, (0, 0)), u8_storage: u8s, codes: Codes::Explicit(codes), layout: Some((256, [(0, 0), (0, 0), (y as usize % 4, 0)])), partner: None };
            let mut local = Stats::new();
            local.sample_budget = 0;
            if let Err(v) = check(&case, &mut local) {
                return Some(v);
            }
            st.evaluations += 1;
            st.comparisons += 65536 * 3;
            st.nontrivial_by_construction += 1;
            st.class("exhaustive_8bit_planes", 1);
            for (k, v) in local.classes {
                if k.starts_with("tolerated") || k.starts_with("clamped") {
                    st.class(&k, v);
                }
            }
        }
        None
    });
    if ystep == 1 {
        st.exhaustive_parts.push("all 2^24 (Y,U,V) triples at 8 bit x 7 matrices x 2 ranges x {u8,u16}".into());
    }
    out
}

/// 9..16 bit: per-plane complete sweeps (other planes at anchors), plus random triples in thorough
fn plane_sweeps(ctx: &Ctx, st: &mut Stats) -> Vec<Violation> {
    let mut jobs = Vec::new();
    let depths: Vec<u8> = if ctx.quick() { vec![9, 10, 12] } else { (9..=16).collect() };
    for mc in STD_MC {
        for full in [false, true] {
            for &d in &depths {
                jobs.push((mc, full, d));
            }
        }
    }
    let quick = ctx.quick();
    let seed0 = ctx.seed;
    par_sweep(ctx, st, jobs.len() as u64, |lo, hi, st| {
        for j in lo..hi {
            let (mc, full, depth) = jobs[j as usize];
            let c = cfg(mc, TC::BT1886, CP::BT709, depth, full, (0, 0));
            let max = (1u32 << depth) - 1;
            let half = 1u16 << (depth - 1);
            let k = 1u32 << (depth - 8);
            let anchors: Vec<[u16; 2]> = if quick {
                vec![[half, half]]
            } else {
                vec![[half, half], [(16 * k) as u16, (240 * k) as u16], [(max / 3) as u16, (2 * (max / 3)) as u16], [0, max as u16]]
            };
            for axis in 0..3 {
                for a in &anchors {
                    let mut codes = Vec::with_capacity(max as usize + 1);
                    for x in 0..=max {
                        let mut p = [half, half, half];
                        p[(axis + 1) % 3] = if axis == 0 { a[0] } else { (a[0] as u32).min(max) as u16 };
                        p[(axis + 2) % 3] = a[1];
                        p[axis] = x as u16;
                        codes.push(p);
                    }
                    let case = Case { cfg: c, u8_storage: false, codes: Codes::Explicit(codes), layout: None, partner: None };
                    let mut local = Stats::new();
                    local.sample_budget = 0;
                    if let Err(v) = check(&case, &mut local) {
                        return Some(v);
                    }
                    st.evaluations += 1;
                    st.comparisons += (max as u64 + 1) * 3;
                    st.nontrivial_by_construction += 1;
                    st.class("plane_sweeps", 1);
                }
            }
            if !quick {
                for chunk in 0..256u64 {
                    let case = Case {
                        cfg: c,
                        u8_storage: false,
                        codes: Codes::Seeded { stratum: (chunk % 6) as u8, seed: mix64(seed0 ^ (j << 20) ^ chunk), n: 65536 },
                        layout: Some((128, [(0, 0), (chunk as usize % 3, 0), (0, 0)])),
                        partner: None,
                    };
                    let mut local = Stats::new();
                    local.sample_budget = 0;
                    if let Err(v) = check(&case, &mut local) {
                        return Some(v);
                    }
                    st.evaluations += 1;
                    st.comparisons += 65536 * 3;
                    st.nontrivial_by_construction += 1;
                    st.class("deep_random_chunks", 1);
                }
            }
        }
        None
    })
}

pub fn replay(v: &Value) -> Result<(), String> {
    check(&Case::from_json(v)?, &mut Stats::new()).map_err(|v| v.message)
}

pub const RULE: &str = "cases = (matrix in 7 standard, range, depth 8..16, storage, batch of code triples as in C01: 6 strata incl. related neighbours, 1..4 rows, independent per-plane paddings; one case in four: a pair of frames whose round trips are interleaved - decode A, decode B, encode A, encode B - with configs differing in matrix, range or depth) generated by proptest, plus real-size frames (32768 .. 2 M pixels, rows up to 131080 wide, pixel counts not divisible by 8), plus enumerated 8-bit cube slices (quick: every 13th luma plane; thorough: all 2^24 triples) and per-plane complete sweeps at 9..16 bit; oracle = sample-exact equality with the input clamped to the legal limited range, the only tolerated deviation (full-range chroma 0 -> 1) recognised exactly and counted; non-trivial = batch containing a non-neutral-chroma triple; distinct = by hash of (config, batch)";
