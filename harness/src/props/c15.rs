//! C15 Unspecified metadata is resolved deterministically and labels match content.

use crate::api::{cfg, cfg_from_json, cfg_json};
use crate::conv::yuv_samples;
use crate::engine::*;
use crate::oracle::{self, ALL_CP, ALL_MC, ALL_TC};
use serde_json::{json, Value};
use yuvxyb::{
    ColorPrimaries as CP, Frame, LinearRgb, MatrixCoefficients as MC, Pixel, Plane, Rgb, TransferCharacteristic as TC, Xyb, Yuv, YuvConfig,
};

const PALETTE: [[f32; 3]; 8] = [
    [0.5, 0.5, 0.5],
    [0.9, 0.1, 0.1],
    [0.1, 0.8, 0.2],
    [0.15, 0.2, 0.85],
    [0.02, 0.02, 0.02],
    [0.97, 0.95, 0.9],
    [0.3, 0.6, 0.7],
    [0.7, 0.4, 0.1],
];

#[derive(Debug, Clone, Copy, PartialEq, Eq, Hash)]
pub enum Op {
    YuvNew,
    RgbNew,
    LinToRgb,
    XybToRgb,
    RgbRefToYuv,
    RgbToYuv,
    LinToYuv,
    XybToYuv,
}
pub const OPS: [Op; 8] = [Op::YuvNew, Op::RgbNew, Op::LinToRgb, Op::XybToRgb, Op::RgbRefToYuv, Op::RgbToYuv, Op::LinToYuv, Op::XybToYuv];

#[derive(Debug, Clone)]
pub struct Case {
    pub op: Op,
    pub w: usize,
    pub h: usize,
    /// the config as given by the caller (may contain Unspecified fields)
    pub cfg: YuvConfig,
    pub u8_storage: bool,
    pub content_seed: u64,
    /// Plane::new padding of the frame handed to Yuv::new (storage geometry must not matter)
    pub pad: (usize, usize),
}

fn op_name(o: Op) -> &'static str {
    match o {
        Op::YuvNew => "Yuv::new",
        Op::RgbNew => "Rgb::new",
        Op::LinToRgb => "(LinearRgb,t,p)->Rgb",
        Op::XybToRgb => "(Xyb,t,p)->Rgb",
        Op::RgbRefToYuv => "(&Rgb,cfg)->Yuv",
        Op::RgbToYuv => "(Rgb,cfg)->Yuv",
        Op::LinToYuv => "(LinearRgb,cfg)->Yuv",
        Op::XybToYuv => "(Xyb,cfg)->Yuv",
    }
}
fn case_json(c: &Case) -> Value {
    json!({"prop":"C15","op":op_name(c.op),"w":c.w,"h":c.h,"cfg":cfg_json(&c.cfg),"storage": if c.u8_storage {"u8"} else {"u16"},"content_seed":c.content_seed.to_string(),"pad":[c.pad.0,c.pad.1]})
}

/// resolution the statement prescribes for a YUV config
pub fn resolve_yuv(c: &YuvConfig, w: usize, h: usize) -> YuvConfig {
    let mut r = *c;
    if r.matrix_coefficients == MC::Unspecified {
        r.matrix_coefficients = oracle::guess_matrix(w, h);
    }
    if r.color_primaries == CP::Unspecified {
        r.color_primaries = oracle::guess_primaries(r.matrix_coefficients, w, h);
    }
    if r.transfer_characteristics == TC::Unspecified {
        r.transfer_characteristics = TC::BT1886;
    }
    r
}
/// resolution for RGB images: sRGB / BT.709
pub fn resolve_rgb(t: TC, p: CP) -> (TC, CP) {
    (if t == TC::Unspecified { TC::SRGB } else { t }, if p == CP::Unspecified { CP::BT709 } else { p })
}

fn content(seed: u64, n: usize) -> Vec<[f32; 3]> {
    let mut e = Expand(seed);
    let mut pal = PALETTE;
    if seed != 0 {
        for p in pal.iter_mut().skip(4) {
            *p = [e.unit() as f32, e.unit() as f32, e.unit() as f32];
        }
    }
    (0..n).map(|i| pal[i % 8]).collect()
}

fn budget(depth: u8) -> f64 {
    (0.015 * ((1u64 << depth) - 1) as f64).max(1.0)
}

fn samples_close<T: Pixel>(a: &Yuv<T>, b: &Yuv<T>, depth: u8) -> Result<f64, String> {
    let (sa, sb) = (yuv_samples(a), yuv_samples(b));
    let mut worst = 0.0f64;
    for (pi, (pa, pb)) in sa.iter().zip(&sb).enumerate() {
        if pa.0 != pb.0 || pa.1 != pb.1 {
            return Err(format!("plane {pi} sizes differ"));
        }
        for (i, (x, y)) in pa.2.iter().zip(&pb.2).enumerate() {
            let d = (*x as f64 - *y as f64).abs();
            if d > budget(depth) {
                return Err(format!("plane {pi} sample {i}: {x} vs {y} (|diff| {d} > budget {})", budget(depth)));
            }
            worst = worst.max(d);
        }
    }
    Ok(worst)
}

/// the conversion of a case under a given config (the op's source type is built from the case's content)
fn convert_case<T: Pixel>(c: &Case, cfgx: YuvConfig) -> Result<Yuv<T>, yuvxyb::ConversionError> {
    let (w, h) = (c.w, c.h);
    let px = content(c.content_seed, w * h);
    let (t_in, p_in) = resolve_rgb(c.cfg.transfer_characteristics, c.cfg.color_primaries);
    match c.op {
        Op::RgbRefToYuv => Yuv::<T>::try_from((&Rgb::new(px, w, h, t_in, p_in).unwrap(), cfgx)),
        Op::RgbToYuv => Yuv::<T>::try_from((Rgb::new(px, w, h, t_in, p_in).unwrap(), cfgx)),
        Op::LinToYuv => Yuv::<T>::try_from((LinearRgb::new(px, w, h).unwrap(), cfgx)),
        _ => Yuv::<T>::try_from((Xyb::from(LinearRgb::new(px, w, h).unwrap()), cfgx)),
    }
}

fn run_yuv_ops<T: Pixel + Send + 'static>(c: &Case, st: &mut Stats) -> Result<(), String> {
    let (w, h) = (c.w, c.h);
    let want = resolve_yuv(&c.cfg, w, h);
    let px = content(c.content_seed, w * h);
    let check_cfg = |got: YuvConfig, what: &str| -> Result<(), String> {
        if got.matrix_coefficients == MC::Unspecified || got.color_primaries == CP::Unspecified || got.transfer_characteristics == TC::Unspecified {
            return Err(format!("{what}: config() still reports Unspecified: {}", cfg_json(&got)));
        }
        if got != want {
            return Err(format!("{what}: config() resolved to {} but the documented heuristic gives {}", cfg_json(&got), cfg_json(&want)));
        }
        Ok(())
    };
    match c.op {
        Op::YuvNew => {
            let mk = |fill: u8| -> Frame<T> {
                let (xp, yp) = c.pad;
                let mut planes = [Plane::<T>::new(w, h, 0, 0, xp, yp), Plane::<T>::new(w, h, 0, 0, xp / 2, yp), Plane::<T>::new(w, h, 0, 0, xp, yp / 2)];
                if fill != 128 {
                    for p in planes.iter_mut() {
                        for v in p.data.iter_mut() {
                            *v = T::cast_from(fill);
                        }
                    }
                }
                Frame { planes }
            };
            let a = Yuv::<T>::new(mk(128), c.cfg).map_err(|e| format!("Yuv::new rejected a well-formed frame: {e:?}"))?;
            check_cfg(a.config(), "Yuv::new")?;
            if w * h <= 1 << 16 {
                // pure function: same inputs twice, independent of the sample data
                let b = Yuv::<T>::new(mk(128), c.cfg).map_err(|e| format!("{e:?}"))?;
                let d = Yuv::<T>::new(mk((c.content_seed % 200) as u8 + 16), c.cfg).map_err(|e| format!("{e:?}"))?;
                if b.config() != a.config() || d.config() != a.config() {
                    return Err("Yuv::new resolves the same config and dimensions differently on a second call / other sample data".into());
                }
            }
            Ok(())
        }
        Op::RgbRefToYuv | Op::RgbToYuv | Op::LinToYuv | Op::XybToYuv => {
            // input image in the op's source type
            let (t_in, p_in) = resolve_rgb(c.cfg.transfer_characteristics, c.cfg.color_primaries);
            let convert = |cfgx: YuvConfig| -> Result<Yuv<T>, yuvxyb::ConversionError> {
                match c.op {
                    Op::RgbRefToYuv => Yuv::<T>::try_from((&Rgb::new(px.clone(), w, h, t_in, p_in).unwrap(), cfgx)),
                    Op::RgbToYuv => Yuv::<T>::try_from((Rgb::new(px.clone(), w, h, t_in, p_in).unwrap(), cfgx)),
                    Op::LinToYuv => Yuv::<T>::try_from((LinearRgb::new(px.clone(), w, h).unwrap(), cfgx)),
                    _ => Yuv::<T>::try_from((Xyb::from(LinearRgb::new(px.clone(), w, h).unwrap()), cfgx)),
                }
            };
            // decoy: the same conversion with other (specified) primaries first; whatever the library remembers
            // from it must not influence the conversion under test
            if w * h <= 1 << 14 {
                let others = [CP::Tech3213, CP::ST170M, CP::BT470BG, CP::BT2020, CP::P3Display, CP::Film, CP::BT470M, CP::ST240M];
                let mut d = c.cfg;
                d.color_primaries = others[(w + 3 * h + c.content_seed as usize + c.cfg.bit_depth as usize) % others.len()];
                let _ = convert(d);
            }
            let out = match convert(c.cfg) {
                Err(_) => {
                    st.class("conversion_with_unspecified_fields_fails", 1);
                    return Ok(()); // the property speaks about conversions that succeed
                }
                Ok(o) => o,
            };
            st.class("conversion_with_unspecified_fields_succeeds", 1);
            check_cfg(out.config(), op_name(c.op))?;
            if out.width() != w || out.height() != h {
                return Err("dimensions changed".into());
            }
            // label = content: the same input converted with the stored (resolved) config given explicitly
            let explicit = convert(out.config()).map_err(|e| format!("{}: conversion with the stored config {} fails: {e:?}", op_name(c.op), cfg_json(&out.config())))?;
            let worst = samples_close(&out, &explicit, c.cfg.bit_depth).map_err(|m| {
                format!(
                    "{}: the config stored in the output ({}) does not describe the encoding applied: converting the same input with that config explicitly gives different samples: {m}",
                    op_name(c.op),
                    cfg_json(&out.config())
                )
            })?;
            st.max("max_code_diff_vs_explicit_config", worst);
            // decoding the output with its own config reproduces the input (compared in codes)
            if matches!(c.op, Op::LinToYuv | Op::XybToYuv) && oracle::STD_MC.contains(&out.config().matrix_coefficients) {
                let dec = LinearRgb::try_from(&out).map_err(|e| format!("decoding the output with its own config fails: {e:?}"))?;
                let re = Yuv::<T>::try_from((dec, out.config())).map_err(|e| format!("{e:?}"))?;
                let worst = samples_close(&re, &explicit, c.cfg.bit_depth).map_err(|m| format!("{}: decoding the output with its own config does not reproduce the input: {m}", op_name(c.op)))?;
                st.max("max_code_diff_decode_reencode", worst);
            }
            // the same conversion on a fresh thread (no earlier calls): identical samples and config
            if w * h <= 1 << 14 {
                let cc = c.clone();
                let fresh = std::thread::spawn(move || convert_case::<T>(&cc, cc.cfg).map(|y| (y.config(), yuv_samples(&y)))).join().map_err(|_| "panic on a fresh thread".to_string())?;
                match fresh {
                    Ok((fc, fs)) if fc == out.config() && fs == yuv_samples(&out) => {}
                    _ => return Err(format!("{}: the result depends on earlier calls on the same thread (it differs from the same conversion run on a fresh thread)", op_name(c.op))),
                }
                st.class("fresh_thread_comparisons", 1);
            }
            // pure function of config and dimensions
            if w * h <= 1 << 14 {
                let again = convert(c.cfg).map_err(|e| format!("{e:?}"))?;
                if again.config() != out.config() || yuv_samples(&again) != yuv_samples(&out) {
                    return Err("the conversion is not deterministic".into());
                }
            }
            Ok(())
        }
        _ => unreachable!(),
    }
}

fn run_rgb_ops(c: &Case, st: &mut Stats) -> Result<(), String> {
    let (w, h) = (c.w, c.h);
    let (t, p) = (c.cfg.transfer_characteristics, c.cfg.color_primaries);
    let (wt, wp) = resolve_rgb(t, p);
    let px = content(c.content_seed, w * h);
    let make = |t: TC, p: CP| -> Result<Rgb, String> {
        match c.op {
            Op::RgbNew => Rgb::new(px.clone(), w, h, t, p).map_err(|e| format!("{e:?}")),
            Op::LinToRgb => Rgb::try_from((LinearRgb::new(px.clone(), w, h).unwrap(), t, p)).map_err(|e| format!("ERR:{e:?}")),
            _ => Rgb::try_from((Xyb::from(LinearRgb::new(px.clone(), w, h).unwrap()), t, p)).map_err(|e| format!("ERR:{e:?}")),
        }
    };
    let out = match make(t, p) {
        Err(e) if e.starts_with("ERR:") => {
            st.class("conversion_with_unspecified_fields_fails", 1);
            return Ok(());
        }
        Err(e) => return Err(format!("{}: {e}", op_name(c.op))),
        Ok(o) => o,
    };
    if out.transfer() == TC::Unspecified || out.primaries() == CP::Unspecified {
        return Err(format!("{}: still reports Unspecified ({:?}, {:?})", op_name(c.op), out.transfer(), out.primaries()));
    }
    if out.transfer() != wt || out.primaries() != wp {
        return Err(format!("{}: resolved to ({:?}, {:?}), documented defaults give ({:?}, {:?})", op_name(c.op), out.transfer(), out.primaries(), wt, wp));
    }
    let explicit = make(out.transfer(), out.primaries()).map_err(|e| format!("explicit call fails: {e}"))?;
    for (i, (a, b)) in out.data().iter().zip(explicit.data()).enumerate() {
        for j in 0..3 {
            if !((a[j] - b[j]).abs() <= 0.015) {
                return Err(format!("{}: the labels stored in the output ({:?}, {:?}) do not describe the encoding applied: pixel {i} component {j} is {:e}, with the labels given explicitly {:e}", op_name(c.op), out.transfer(), out.primaries(), a[j], b[j]));
            }
        }
    }
    if c.op != Op::RgbNew {
        // decoding with its own labels reproduces the input
        let dec = LinearRgb::try_from(out.clone()).map_err(|e| format!("{e:?}"))?;
        for (i, (a, b)) in dec.data().iter().zip(&px).enumerate() {
            for j in 0..3 {
                if !((a[j] - b[j]).abs() <= 0.015) {
                    return Err(format!("{}: decoding the output with its own labels gives {:e} for pixel {i} component {j}, input was {:e}", op_name(c.op), a[j], b[j]));
                }
            }
        }
    }
    st.class("rgb_ops_checked", 1);
    Ok(())
}

/// a call with the same size and the same given metadata but a different range / depth: the
/// resolution is a pure function of config and dimensions, so it must not leak into the next call
fn sibling(c: &Case) -> Case {
    let mut s = c.clone();
    s.cfg.full_range = !c.cfg.full_range;
    if !c.u8_storage {
        s.cfg.bit_depth = if c.cfg.bit_depth == 10 { 12 } else { 10 };
    }
    s
}

pub fn check(c: &Case, st: &mut Stats) -> Result<(), Violation> {
    st.evaluations += 1;
    if c.w * c.h <= 1 << 20 && c.w != c.h && c.pad == (0, 0) {
        // the same config on the transposed shape (equal area, other dimensions) first: the resolution is a
        // function of width and height, not of the pixel count
        let mut t = c.clone();
        t.w = c.h;
        t.h = c.w;
        let _ = catch(|| {
            let mut scratch = Stats::new();
            match t.op {
                Op::RgbNew | Op::LinToRgb | Op::XybToRgb => run_rgb_ops(&t, &mut scratch),
                _ => {
                    if t.u8_storage {
                        run_yuv_ops::<u8>(&t, &mut scratch)
                    } else {
                        run_yuv_ops::<u16>(&t, &mut scratch)
                    }
                }
            }
        });
    }
    if c.w * c.h <= 1 << 16 {
        let sib = sibling(c);
        let _ = catch(|| {
            let mut scratch = Stats::new();
            match sib.op {
                Op::RgbNew | Op::LinToRgb | Op::XybToRgb => run_rgb_ops(&sib, &mut scratch),
                _ => {
                    if sib.u8_storage {
                        run_yuv_ops::<u8>(&sib, &mut scratch)
                    } else {
                        run_yuv_ops::<u16>(&sib, &mut scratch)
                    }
                }
            }
        });
    }
    let r = catch(|| {
        let mut local = Stats::new();
        let r = match c.op {
            Op::RgbNew | Op::LinToRgb | Op::XybToRgb => run_rgb_ops(c, &mut local),
            _ => {
                if c.u8_storage {
                    run_yuv_ops::<u8>(c, &mut local)
                } else {
                    run_yuv_ops::<u16>(c, &mut local)
                }
            }
        };
        (r, local)
    });
    let unspec = [c.cfg.matrix_coefficients == MC::Unspecified, c.cfg.color_primaries == CP::Unspecified, c.cfg.transfer_characteristics == TC::Unspecified];
    let which = format!("{}{}{}", if unspec[0] { "M" } else { "-" }, if unspec[1] { "P" } else { "-" }, if unspec[2] { "T" } else { "-" });
    match r {
        Err(p) => Err(Violation { signature: format!("C15:panic:{}", op_name(c.op)), message: format!("{} panicked: {p}; case {}", op_name(c.op), case_json(c)), case: case_json(c) }),
        Ok((Err(m), _)) => Err(Violation { signature: format!("C15:{}:unspecified={which}", op_name(c.op)), message: format!("{m}; case {}", case_json(c)), case: case_json(c) }),
        Ok((Ok(()), local)) => {
            st.merge(local);
            st.comparisons += 1;
            st.class(&format!("op_{}", op_name(c.op)), 1);
            st.class(&format!("unspecified_{which}"), 1);
            if unspec.iter().any(|b| *b) {
                st.nontrivial(&case_json(c).to_string());
            }
            st.sample(|| case_json(c));
            Ok(())
        }
    }
}

fn heights() -> Vec<usize> {
    let mut v = vec![1, 2];
    v.extend(479..=489);
    v.extend(575..=577);
    v.extend(1279..=1281);
    v
}
const WIDTHS: [usize; 6] = [1, 2, 16, 1279, 1280, 1281];

pub fn cases(ctx: &Ctx) -> Vec<Case> {
    let mut out = Vec::new();
    let hs = heights();
    let base_t = TC::BT470BG; // a specified value different from every default, so a swap shows
    let base_p = CP::Film;
    for (oi, op) in OPS.iter().enumerate() {
        for &w in &WIDTHS {
            for &h in &hs {
                let big = w * h > 40_000;
                // conversions of big frames: thin ones always; both-large ones only in the thorough tier
                if big && *op != Op::YuvNew && *op != Op::RgbNew && ctx.quick() {
                    continue;
                }
                let mats: Vec<MC> = if *op == Op::YuvNew {
                    ALL_MC.to_vec()
                } else if big {
                    vec![MC::ST170M, MC::BT2020NonConstantLuminance]
                } else {
                    vec![MC::BT709, MC::ST170M, MC::BT470BG, MC::BT2020NonConstantLuminance, MC::BT2020ConstantLuminance, MC::YCgCo, MC::Identity]
                };
                for m in mats {
                    for subset in 0..8u8 {
                        if matches!(op, Op::RgbNew | Op::LinToRgb | Op::XybToRgb) && (subset & 1 != 0 || m != MC::BT709) {
                            continue; // RGB images carry no matrix
                        }
                        let depths: Vec<(u8, bool)> = if ctx.quick() || big { vec![(8, true)] } else { vec![(8, true), (10, false), (16, false)] };
                        for (depth, u8s) in depths {
                            let c = cfg(
                                if subset & 1 != 0 { MC::Unspecified } else { m },
                                if subset & 4 != 0 { TC::Unspecified } else { base_t },
                                if subset & 2 != 0 { CP::Unspecified } else { base_p },
                                depth,
                                (w + h + oi) % 2 == 0,
                                (0, 0),
                            );
                            let seed = if ctx.quick() { 0 } else { mix64(ctx.seed ^ (w * 7919 + h) as u64 ^ ((subset as u64) << 40)) };
                            out.push(Case { op: *op, w, h, cfg: c, u8_storage: u8s, content_seed: seed, pad: (0, 0) });
                            if *op == Op::YuvNew && !big && subset != 0 {
                                out.push(Case { op: *op, w, h, cfg: c, u8_storage: u8s, content_seed: seed, pad: [(8, 4), (0, 16), (17, 1)][(w + h + subset as usize) % 3] });
                            }
                        }
                    }
                }
            }
        }
    }
    // every specified transfer x primaries next to the Unspecified fields (round 9, seed C15K: a shortcut taken only
    // for one transfer curve): conversions to YUV of thin frames on both sides of the size thresholds
    for (oi, op) in [Op::RgbRefToYuv, Op::RgbToYuv, Op::LinToYuv, Op::XybToYuv].iter().enumerate() {
        for &h in &[2usize, 480, 576] {
            for m in [MC::BT709, MC::ST170M, MC::BT2020NonConstantLuminance] {
                for subset in 1..8u8 {
                    let ts: Vec<TC> = if subset & 4 != 0 { vec![TC::Unspecified] } else { oracle::SUP_TC.to_vec() };
                    let ps: Vec<CP> = if subset & 2 != 0 { vec![CP::Unspecified] } else { oracle::SUP_CP.to_vec() };
                    for &t in &ts {
                        for &p in &ps {
                            if t == base_t && p == base_p {
                                continue; // in the list above
                            }
                            let c = cfg(if subset & 1 != 0 { MC::Unspecified } else { m }, t, p, 8, (h + oi) % 2 == 0, (0, 0));
                            out.push(Case { op: *op, w: 16, h, cfg: c, u8_storage: true, content_seed: 0, pad: (0, 0) });
                        }
                    }
                }
            }
        }
    }
    // common picture sizes (constructor only: the resolution is a function of config and size)
    const COMMON: [(usize, usize); 16] = [
        (176, 144), (320, 240), (352, 288), (640, 360), (640, 480), (704, 480), (720, 480), (720, 486), (720, 576), (768, 576),
        (1024, 576), (1280, 720), (1440, 1080), (1920, 1080), (2560, 1440), (3840, 2160),
    ];
    for &(w, h) in &COMMON {
        for m in ALL_MC {
            for subset in 0..8u8 {
                let c = cfg(
                    if subset & 1 != 0 { MC::Unspecified } else { m },
                    if subset & 4 != 0 { TC::Unspecified } else { base_t },
                    if subset & 2 != 0 { CP::Unspecified } else { base_p },
                    8,
                    false,
                    (0, 0),
                );
                out.push(Case { op: Op::YuvNew, w, h, cfg: c, u8_storage: true, content_seed: 0, pad: if subset % 2 == 1 && w * h < 500_000 { (0, 4) } else { (0, 0) } });
            }
        }
    }
    out
}

fn new_yuv8(w: usize, h: usize, ss: (u8, u8), c: YuvConfig) -> Result<YuvConfig, String> {
    let (cw, ch) = (w >> ss.0, h >> ss.1);
    let planes = [Plane::<u8>::new(w, h, 0, 0, 0, 0), Plane::<u8>::new(cw, ch, ss.0 as usize, ss.1 as usize, 0, 0), Plane::<u8>::new(cw, ch, ss.0 as usize, ss.1 as usize, 0, 0)];
    match catch(|| Yuv::<u8>::new(Frame { planes }, c).map(|y| y.config())) {
        Ok(Ok(c)) => Ok(c),
        Ok(Err(e)) => Err(format!("Yuv::new rejected a well-formed frame: {e:?}")),
        Err(p) => Err(format!("panic: {p}")),
    }
}

/// Subsampled frames whose luma size and chroma size fall on different sides of the thresholds: the heuristic is
/// stated on the image's width and height (the luma size)
fn subsampled_sizes(ctx: &Ctx, st: &mut Stats) -> Vec<Violation> {
    let sizes: [(usize, usize); 16] = [(1280, 4), (1284, 4), (1276, 4), (2560, 4), (2556, 8), (4, 480), (4, 488), (4, 484), (4, 576), (8, 580), (4, 960), (4, 976), (4, 1152), (4, 1156), (4, 1280), (640, 4)];
    let mut jobs = Vec::new();
    for ss in [(1u8, 0u8), (1, 1), (0, 1), (2, 0), (2, 2)] {
        for (w, h) in sizes {
            for m in ALL_MC {
                jobs.push((ss, w, h, m));
            }
        }
    }
    par_sweep(ctx, st, jobs.len() as u64, |lo, hi, st| {
        for j in lo..hi {
            let (ss, w, h, m) = jobs[j as usize];
            for subset in 1..8u8 {
                let c = cfg(
                    if subset & 1 != 0 { MC::Unspecified } else { m },
                    if subset & 4 != 0 { TC::Unspecified } else { TC::BT470BG },
                    if subset & 2 != 0 { CP::Unspecified } else { CP::Film },
                    8,
                    j % 2 == 0,
                    ss,
                );
                let want = resolve_yuv(&c, w, h);
                let mk = |msg: String| Violation { signature: "C15:subsampled".into(), message: msg, case: json!({"prop":"C15","part":"subsampled","w":w,"h":h,"cfg":cfg_json(&c)}) };
                match new_yuv8(w, h, ss, c) {
                    Err(e) => return Some(mk(format!("{e}; {w}x{h} frame, cfg {}", cfg_json(&c)))),
                    Ok(got) => {
                        if got != want {
                            return Some(mk(format!("Yuv::new on a {w}x{h} frame with subsampling {:?}: config() resolved to {} but the documented heuristic (on the image's width and height) gives {}", ss, cfg_json(&got), cfg_json(&want))));
                        }
                    }
                }
                // the conversion entry point resolves the same way
                let rgb = Rgb::new(vec![[0.5f32, 0.4, 0.3]; w * h], w, h, TC::BT470BG, CP::Film).unwrap();
                if let Ok(Ok(y)) = catch(|| Yuv::<u8>::try_from((&rgb, c))) {
                    if y.config() != want {
                        return Some(mk(format!("(&Rgb,cfg)->Yuv on a {w}x{h} image with subsampling {:?}: config() resolved to {} but the documented heuristic gives {}", ss, cfg_json(&y.config()), cfg_json(&want))));
                    }
                }
                st.comparisons += 2;
            }
            st.evaluations += 1;
            st.nontrivial_by_construction += 1;
            st.class("subsampled_threshold_frames", 1);
        }
        None
    })
}

/// Two-step histories: every ordered pair (A, B) of configs with at least one Unspecified field, Yuv::new(A) directly
/// followed by Yuv::new(B) on the same thread and the same frame size; B must resolve as the heuristic says whatever
/// A was ("a pure function of config and dimensions"). Complete over the 714^2 pairs, at two sizes.
fn pair_histories(ctx: &Ctx, st: &mut Stats) -> Vec<Violation> {
    let mut cfgs: Vec<YuvConfig> = Vec::new();
    for m in ALL_MC {
        for p in ALL_CP {
            for t in ALL_TC {
                if m == MC::Unspecified || p == CP::Unspecified || t == TC::Unspecified {
                    cfgs.push(cfg(m, t, p, 8, false, (0, 0)));
                }
            }
        }
    }
    let n = cfgs.len() as u64;
    let sizes = [(4usize, 480usize), (1280, 2)];
    let out = par_sweep(ctx, st, n * sizes.len() as u64, |lo, hi, st| {
        for j in lo..hi {
            // (the two sizes alternate between neighbouring jobs, so that threads work on frames of different size
            // classes at the same time)
            let a = cfgs[(j / sizes.len() as u64) as usize];
            let (w, h) = sizes[(j % sizes.len() as u64) as usize];
            for b in &cfgs {
                let _ = new_yuv8(w, h, (0, 0), a);
                let want = resolve_yuv(b, w, h);
                let got = new_yuv8(w, h, (0, 0), *b);
                if got.as_ref().ok() != Some(&want) {
                    return Some(Violation {
                        signature: "C15:pair-history".into(),
                        message: format!("Yuv::new on a {w}x{h} frame with config {} right after Yuv::new with config {} on the same thread gives {:?}; the documented heuristic gives {} (the resolution must be a pure function of config and dimensions)", cfg_json(b), cfg_json(&a), got.map(|c| cfg_json(&c).to_string()), cfg_json(&want)),
                        case: json!({"prop":"C15","part":"pair","w":w,"h":h,"first":cfg_json(&a),"cfg":cfg_json(b)}),
                    });
                }
            }
            st.comparisons += n;
            st.evaluations += 1;
            st.nontrivial_by_construction += 1;
            st.class("pair_history_rows", 1);
        }
        None
    });
    if out.is_empty() {
        st.exhaustive_parts.push(format!("all {n}^2 ordered pairs of configs with at least one Unspecified field as two-step Yuv::new histories, at 4x480 and 1280x2"));
    }
    out
}

/// Two-step histories across sizes: the same config on two frames whose width or height differ by 65536 (and a few
/// other size pairs from different heuristic classes), in both orders. Keys that pack the dimensions into too few
/// bits alias exactly there.
fn size_pair_histories(ctx: &Ctx, st: &mut Stats) -> Vec<Violation> {
    let mut cfgs: Vec<YuvConfig> = Vec::new();
    for m in ALL_MC {
        for p in ALL_CP {
            for t in ALL_TC {
                if m == MC::Unspecified || p == CP::Unspecified || t == TC::Unspecified {
                    cfgs.push(cfg(m, t, p, 8, false, (0, 0)));
                }
            }
        }
    }
    let base: [((usize, usize), (usize, usize)); 9] = [
        ((1, 480), (1, 480 + 65536)),
        ((64, 2), (64 + 65536, 2)),
        ((4, 576), (4, 576 + 65536)),
        ((1280, 2), (1280 + 65536, 2)),
        ((2, 2), (2 + 65536, 2)),
        ((2, 2), (2, 2 + 65536)),
        ((2, 488), (2, 488 + 65536)),
        ((1279, 1), (1280, 1)),
        ((4, 576), (4, 480)),
    ];
    let mut pairs = Vec::new();
    for (a, b) in base {
        pairs.push((a, b));
        pairs.push((b, a));
    }
    let n = cfgs.len() as u64;
    par_sweep(ctx, st, n * pairs.len() as u64, |lo, hi, st| {
        for j in lo..hi {
            let c = cfgs[(j / pairs.len() as u64) as usize];
            let ((w1, h1), (w2, h2)) = pairs[(j % pairs.len() as u64) as usize];
            let _ = new_yuv8(w1, h1, (0, 0), c);
            let want = resolve_yuv(&c, w2, h2);
            let got = new_yuv8(w2, h2, (0, 0), c);
            if got.as_ref().ok() != Some(&want) {
                return Some(Violation {
                    signature: "C15:size-pair-history".into(),
                    message: format!("Yuv::new on a {w2}x{h2} frame right after Yuv::new on a {w1}x{h1} frame with the same config {} on the same thread gives {:?}; the documented heuristic gives {}", cfg_json(&c), got.map(|c| cfg_json(&c).to_string()), cfg_json(&want)),
                    case: json!({"prop":"C15","part":"size-pair","w":w2,"h":h2,"w1":w1,"h1":h1,"first":cfg_json(&c),"cfg":cfg_json(&c)}),
                });
            }
            st.comparisons += 1;
            st.evaluations += 1;
            st.nontrivial_by_construction += 1;
            st.class("size_pair_histories", 1);
        }
        None
    })
}

fn replay_part(v: &Value) -> Result<(), String> {
    let g = |k: &str| v.get(k).and_then(|x| x.as_u64()).map(|x| x as usize).ok_or_else(|| k.to_string());
    let (w, h) = (g("w")?, g("h")?);
    let c = cfg_from_json(v.get("cfg").ok_or("cfg")?).ok_or("cfg")?;
    if let Some(a) = v.get("first").and_then(cfg_from_json) {
        let (w1, h1) = (v.get("w1").and_then(|x| x.as_u64()).map(|x| x as usize).unwrap_or(w), v.get("h1").and_then(|x| x.as_u64()).map(|x| x as usize).unwrap_or(h));
        // a fresh thread: process-wide state aside, the two calls follow each other directly
        return std::thread::spawn(move || {
            let _ = new_yuv8(w1, h1, (0, 0), a);
            let want = resolve_yuv(&c, w, h);
            match new_yuv8(w, h, (0, 0), c) {
                Ok(got) if got == want => Ok(()),
                other => Err(format!("second call gives {:?}, heuristic {}", other.map(|c| cfg_json(&c)), cfg_json(&want))),
            }
        })
        .join()
        .map_err(|_| "panicked".to_string())?;
    }
    let want = resolve_yuv(&c, w, h);
    match new_yuv8(w, h, (c.subsampling_x, c.subsampling_y), c) {
        Ok(got) if got == want => Ok(()),
        other => Err(format!("Yuv::new gives {:?}, heuristic {}", other.map(|c| cfg_json(&c)), cfg_json(&want))),
    }
}

pub fn run(ctx: &Ctx, st: &mut Stats) -> Vec<Violation> {
    if ctx.light {
        // secondary build configurations (C20): every fifth case, no pair histories
        let cs: Vec<Case> = cases(ctx).into_iter().enumerate().filter(|(i, _)| i % 5 == (ctx.seed % 5) as usize).map(|(_, c)| c).collect();
        let mut out = par_sweep(ctx, st, cs.len() as u64, |lo, hi, st| {
            for i in lo..hi {
                if let Err(v) = check(&cs[i as usize], st) {
                    return Some(v);
                }
            }
            None
        });
        if out.is_empty() {
            out.extend(subsampled_sizes(ctx, st));
        }
        return out;
    }
    let cs = cases(ctx);
    let n = cs.len();
    let out = par_sweep(ctx, st, n as u64, |lo, hi, st| {
        for i in lo..hi {
            if let Err(v) = check(&cs[i as usize], st) {
                return Some(v);
            }
        }
        None
    });
    st.exhaustive_parts.push(format!(
        "enumeration of {n} cases: widths {{1,2,16,1279,1280,1281}} x heights {{1,2,479..=489,575..=577,1279..=1281}} x matrices (all 15 for Yuv::new) x the 8 subsets of {{matrix, primaries, transfer}} left Unspecified x 8 constructors/conversions{}, plus 16 common picture sizes (176x144 .. 3840x2160) x 15 matrices x 8 subsets through Yuv::new",
        if ctx.quick() { " (conversions of frames above 40,000 pixels are left to the thorough tier)" } else { "" }
    ));
    let mut out = out;
    if out.is_empty() {
        out.extend(subsampled_sizes(ctx, st));
    }
    if out.is_empty() {
        out.extend(pair_histories(ctx, st));
    }
    if out.is_empty() {
        out.extend(size_pair_histories(ctx, st));
    }
    out
}

pub fn replay(v: &Value) -> Result<(), String> {
    if v.get("part").is_some() {
        return replay_part(v);
    }
    let op = OPS.iter().copied().find(|o| Some(op_name(*o)) == v.get("op").and_then(|s| s.as_str())).ok_or("op")?;
    let c = Case {
        op,
        w: v.get("w").and_then(|x| x.as_u64()).ok_or("w")? as usize,
        h: v.get("h").and_then(|x| x.as_u64()).ok_or("h")? as usize,
        cfg: cfg_from_json(v.get("cfg").ok_or("cfg")?).ok_or("cfg")?,
        u8_storage: v.get("storage").and_then(|s| s.as_str()) == Some("u8"),
        content_seed: v.get("content_seed").and_then(|s| s.as_str()).and_then(|s| s.parse().ok()).unwrap_or(0),
        pad: v.get("pad").and_then(|p| p.as_array()).map(|a| (a[0].as_u64().unwrap_or(0) as usize, a[1].as_u64().unwrap_or(0) as usize)).unwrap_or((0, 0)),
    };
    check(&c, &mut Stats::new()).map_err(|v| v.message)
}

pub const RULE: &str = "enumeration: widths {1,2,16,1279,1280,1281} x heights {1,2,479..=489,575..=577,1279..=1281} x matrices x the 8 subsets of {matrix, primaries, transfer} set to Unspecified x {Yuv::new, Rgb::new, (LinearRgb|Xyb,t,p)->Rgb, (&Rgb|Rgb|LinearRgb|Xyb,cfg)->Yuv}, the specified fields being BT470BG / Film; plus, for the four conversions to YUV on 16x{2,480,576} frames, every supported transfer x every supported primaries as the specified fields (thorough: depths 8/10/16, random colour content, conversions of large frames). Oracle: (i) no accessor returns Unspecified; (ii) the resolved values equal the heuristic re-implemented from the statement, are the same on a second call and for other sample data; (iii) label = content: converting the same input with the stored (resolved) config given explicitly yields the same samples within max(1, 1.5% of the code range), and decoding the output with its own config and re-encoding reproduces them within the same budget. Frames handed to Yuv::new are also built with Plane::new paddings (storage geometry must not matter); every case is preceded by a call on the transposed shape (equal area) and by a sibling call with the same size and given metadata but another range/depth (no state may leak between calls); conversions are also preceded by the same conversion under other primaries and compared with the same conversion on a fresh thread. In addition: subsampled frames (4:2:2, 4:2:0, 4:4:0, 4:1:1, 4:1:0) whose luma and chroma sizes fall on different sides of the thresholds (16 sizes x 15 matrices x 7 subsets, Yuv::new and (&Rgb,cfg)->Yuv), and all 714^2 ordered pairs of configs with an Unspecified field as two-step Yuv::new histories on one thread at two sizes (the second call must resolve as the heuristic says), and the same config on two frames whose width or height differ by 65536 or that lie in different size classes, in both orders (18 size pairs x 714 configs). Conversions that fail are counted, not judged. A case = one (operation, size, config) triple; non-trivial = at least one field Unspecified; distinct by construction (hash of the case)";
