//! C11 Conversions are pointwise, order-preserving and layout-independent (metamorphic relations).

use crate::gen::{pick_from, sup_primaries, sup_transfer, SUBSAMPLINGS};
use crate::oracle::STD_MC;
use crate::api::{cfg_from_json, cfg_json};
use crate::conv::*;
use crate::engine::*;
use proptest::prelude::*;
use serde_json::{json, Value};
use yuvxyb::{ColorPrimaries as CP, Frame, Hsl, LinearRgb, MatrixCoefficients as MC, Pixel, Rgb, Xyb, Yuv, YuvConfig};

#[derive(Debug, Clone)]
pub struct Case {
    pub src: Kind,
    pub bw: usize,
    pub bh: usize,
    pub cfg: YuvConfig,
    pub seed: u64,
    pub pads: [(usize, usize); 3],
    pub pads2: [(usize, usize); 3],
}

impl Case {
    fn dims(&self) -> (usize, usize) {
        (self.bw << self.cfg.subsampling_x, self.bh << self.cfg.subsampling_y)
    }
    fn to_json(&self) -> Value {
        json!({"prop":"C11","src":kind_name(self.src),"bw":self.bw,"bh":self.bh,"cfg":cfg_json(&self.cfg),"seed":self.seed.to_string(),
               "pads":self.pads,"pads2":self.pads2})
    }
    fn from_json(v: &Value) -> Option<Case> {
        Some(Case {
            src: kind_from_name(v.get("src")?.as_str()?)?,
            bw: v.get("bw")?.as_u64()? as usize,
            bh: v.get("bh")?.as_u64()? as usize,
            cfg: cfg_from_json(v.get("cfg")?)?,
            seed: v.get("seed")?.as_str()?.parse().ok()?,
            pads: serde_json::from_value(v.get("pads")?.clone()).ok()?,
            pads2: serde_json::from_value(v.get("pads2")?.clone()).ok()?,
        })
    }
}

fn pad3() -> impl Strategy<Value = [(usize, usize); 3]> {
    let p = || prop_oneof![2 => Just(0usize), 3 => 0usize..=32];
    [(p(), p()), (p(), p()), (p(), p())]
}

/// every matrix for which the conversions succeed: the 7 standard ones and the 5 that are derived from the
/// primaries (the relations of this property need no numeric oracle, so any working config is admissible)
pub const WORKING_MC: [MC; 12] = [
    MC::BT709,
    MC::BT470M,
    MC::BT470BG,
    MC::ST170M,
    MC::ST240M,
    MC::BT2020NonConstantLuminance,
    MC::YCgCo,
    MC::Identity,
    MC::BT2020ConstantLuminance,
    MC::ST2085,
    MC::ChromaticityDerivedConstantLuminance,
    MC::ICtCp,
];

pub fn working_cfg() -> BoxedStrategy<YuvConfig> {
    (pick_from(&WORKING_MC), sup_transfer(), sup_primaries(), prop_oneof![Just(8u8), Just(10u8), Just(16u8), 9u8..=16], any::<bool>(), pick_from(&SUBSAMPLINGS))
        .prop_map(|(m, t, mut p, d, full, ss)| {
            if !STD_MC.contains(&m) && p == CP::ST428 {
                p = CP::BT709; // a matrix cannot be derived from the XYZ encoding
            }
            crate::api::cfg(m, t, p, d, full, ss)
        })
        .boxed()
}

pub fn strategy() -> BoxedStrategy<Case> {
    (
        working_cfg(),
        prop_oneof![Just(Kind::Yuv8), Just(Kind::Yuv16), Just(Kind::Rgb), Just(Kind::Lin), Just(Kind::Xyb), Just(Kind::Hsl)],
        prop_oneof![12 => 1usize..=64, 1 => 1025usize..=2200, 1 => 2049usize..=4200],
        1usize..=64,
        any::<u64>(),
        pad3(),
        pad3(),
    )
        .prop_map(|(mut cfg, src, w, mut h, seed, pads, pads2)| {
            if src == Kind::Yuv8 {
                cfg.bit_depth = 8;
            }
            let mut w = w;
            if w > 64 {
                h = 1 + h % 2; // wide images are kept thin
            }
            if seed % 300 == 7 {
                // a real-size frame now and then (pointwise relation on corner / boundary / sampled positions)
                let (lw, lh) = crate::gen::LARGE_SIZES[(seed / 300) as usize % 5];
                w = lw;
                h = lh;
            }
            // sizes 1..=64, multiples of the subsampling factor
            let bw = (w >> cfg.subsampling_x).max(1);
            let bh = (h >> cfg.subsampling_y).max(1);
            Case { src, bw, bh, cfg, seed, pads, pads2 }
        })
        .boxed()
}

fn rand_planes(c: &Case) -> [Vec<u16>; 3] {
    let (w, h) = c.dims();
    let (cw, ch) = (w >> c.cfg.subsampling_x, h >> c.cfg.subsampling_y);
    let max = if c.src == Kind::Yuv8 { 255u64 } else { (1u64 << c.cfg.bit_depth) - 1 };
    let mut e = Expand(c.seed);
    let runs = c.seed % 3 == 0;
    let mut mk = |n: usize| {
        let mut v: Vec<u16> = Vec::with_capacity(n);
        while v.len() < n {
            let x = e.below(max + 1) as u16;
            // related neighbours: runs of equal samples, or +-1 / +-2^k steps
            let reps = if runs { 1 + e.below(4) } else { 1 };
            for r in 0..reps {
                if v.len() < n {
                    v.push(if r > 0 && e.below(3) == 0 { (x as u64 ^ (1u64 << e.below(c.cfg.bit_depth.min(if c.src == Kind::Yuv8 { 8 } else { 16 }) as u64))).min(max) as u16 } else { x });
                }
            }
        }
        v
    };
    let mut planes = [mk(w * h), mk(cw * ch), mk(cw * ch)];
    if c.seed % 4 == 1 {
        crate::gen::correlate_plane_rows(&mut planes, [(w, h), (cw, ch), (cw, ch)], c.seed);
    }
    planes
}

fn rand_floats(c: &Case) -> Vec<[f32; 3]> {
    let (w, h) = c.dims();
    let mut e = Expand(c.seed);
    let wide = e.below(4) == 0;
    let mut px: Vec<[f32; 3]> = (0..w * h)
        .map(|_| {
            let mut p = [0f32; 3];
            for x in p.iter_mut() {
                *x = if wide { e.range_f64(-0.25, 1.25) as f32 } else { e.unit() as f32 };
            }
            if c.src == Kind::Hsl {
                p[0] = (e.unit() * 359.9) as f32;
            }
            p
        })
        .collect();
    if c.seed % 3 == 0 {
        // related neighbours: equal / partly equal / rotated pixels, and pixels equal to the *result* of
        // converting the previous pixel with one of the float->float edges of this source type
        let fedges: Vec<Edge> = edges_from(c.src).into_iter().filter(|e| !matches!(e, Edge::RgbToYuv { .. } | Edge::LinToYuv { .. } | Edge::XybToYuv { .. })).collect();
        let fe = fedges[(c.seed / 3) as usize % fedges.len()];
        let (kind, cfg) = (c.src, c.cfg);
        let fb = move |p: [f32; 3]| -> Option<[f32; 3]> {
            let one = float_img(kind, vec![p], 1, 1, cfg.transfer_characteristics, cfg.color_primaries);
            apply(fe, &one, &Params { cfg }).ok().and_then(|o| o.float_data().map(|d| d[0]))
        };
        let dom = |p: [f32; 3]| -> bool { p.iter().all(|x| x.is_finite() && *x >= -0.25 && *x <= 360.0) };
        correlate_px(&mut px, c.seed, Some(&fb), &dom);
    }
    px
}

fn build_yuv<T: Pixel>(c: &Case, planes: &[Vec<u16>; 3], pads: [(usize, usize); 3], fill: u16) -> Frame<T> {
    let (w, h) = c.dims();
    yuv_frame::<T>(w, h, (c.cfg.subsampling_x, c.cfg.subsampling_y), pads, planes, fill)
}

fn mk_src(c: &Case, pads: [(usize, usize); 3], fill: u16) -> Img {
    let (w, h) = c.dims();
    match c.src {
        Kind::Yuv8 => Img::Yuv8(Yuv::new(build_yuv::<u8>(c, &rand_planes(c), pads, fill & 0xFF), c.cfg).expect("well-formed")),
        Kind::Yuv16 => {
            let max = ((1u32 << c.cfg.bit_depth) - 1) as u16;
            Img::Yuv16(Yuv::new(build_yuv::<u16>(c, &rand_planes(c), pads, fill.min(max)), c.cfg).expect("well-formed"))
        }
        k => float_img(k, rand_floats(c), w, h, c.cfg.transfer_characteristics, c.cfg.color_primaries),
    }
}

/// the 1x1 image made of input pixel (x,y)
fn single_pixel(c: &Case, src: &Img, x: usize, y: usize) -> Img {
    let mut c1 = c.cfg;
    c1.subsampling_x = 0;
    c1.subsampling_y = 0;
    let (ssx, ssy) = (c.cfg.subsampling_x, c.cfg.subsampling_y);
    fn one<T: Pixel>(yuv: &Yuv<T>, x: usize, y: usize, ssx: u8, ssy: u8, c1: YuvConfig) -> Yuv<T> {
        let d = yuv.data();
        let planes = [vec![u16::cast_from(d[0].p(x, y))], vec![u16::cast_from(d[1].p(x >> ssx, y >> ssy))], vec![u16::cast_from(d[2].p(x >> ssx, y >> ssy))]];
        Yuv::new(yuv_frame::<T>(1, 1, (0, 0), [(0, 0); 3], &planes, 0), c1).expect("1x1 frame")
    }
    use yuvxyb::CastFromPrimitive;
    match src {
        Img::Yuv8(yv) => Img::Yuv8(one(yv, x, y, ssx, ssy, c1)),
        Img::Yuv16(yv) => Img::Yuv16(one(yv, x, y, ssx, ssy, c1)),
        other => {
            let (w, _) = other.dims();
            let p = other.float_data().unwrap()[y * w + x];
            float_img(other.kind(), vec![p], 1, 1, c.cfg.transfer_characteristics, c.cfg.color_primaries)
        }
    }
}

/// configs differing from `c` in exactly one field: another matrix; same matrix, other primaries
fn decoy_cfgs(c: &YuvConfig) -> Vec<YuvConfig> {
    let mut a = *c;
    a.matrix_coefficients = if c.matrix_coefficients == MC::BT709 { MC::ST170M } else { MC::BT709 };
    let mut b = *c;
    b.color_primaries = if c.color_primaries == CP::BT709 { CP::BT2020 } else { CP::BT709 };
    vec![a, b]
}

/// the same data as `src`, held by an object that was produced by a conversion from a bland (grey /
/// zero) image and then overwritten through `data_mut()`
fn provenance_src(c: &Case, src: &Img) -> Img {
    let (w, h) = c.dims();
    let n = w * h;
    let (t, p) = (c.cfg.transfer_characteristics, c.cfg.color_primaries);
    let data = src.float_data().expect("float source").to_vec();
    let grey = vec![[0.5f32, 0.5, 0.5]; n];
    let which = c.seed % 3;
    match src.kind() {
        Kind::Rgb => {
            let mut r = if which == 0 {
                Rgb::new(grey, w, h, t, p).unwrap()
            } else {
                Rgb::try_from((LinearRgb::new(grey, w, h).unwrap(), t, p)).unwrap()
            };
            r.data_mut().copy_from_slice(&data);
            Img::Rgb(r)
        }
        Kind::Lin => {
            let mut l = match which {
                0 => LinearRgb::from(Hsl::new(vec![[0.0f32, 0.0, 0.5]; n], w, h).unwrap()),
                1 => LinearRgb::from(Xyb::new(vec![[0.0f32; 3]; n], w, h).unwrap()),
                _ => LinearRgb::try_from(Rgb::new(grey, w, h, t, p).unwrap()).unwrap(),
            };
            l.data_mut().copy_from_slice(&data);
            Img::Lin(l)
        }
        Kind::Xyb => {
            let mut x = Xyb::from(LinearRgb::new(grey, w, h).unwrap());
            x.data_mut().copy_from_slice(&data);
            Img::Xyb(x)
        }
        Kind::Hsl => {
            let mut x = Hsl::from(LinearRgb::new(grey, w, h).unwrap());
            x.data_mut().copy_from_slice(&data);
            Img::Hsl(x)
        }
        _ => unreachable!(),
    }
}

fn positions(w: usize, h: usize, seed: u64) -> Vec<(usize, usize)> {
    if w * h <= 256 {
        return (0..h).flat_map(|y| (0..w).map(move |x| (x, y))).collect();
    }
    let mut e = Expand(seed ^ 0x55);
    let mut v = vec![(0, 0), (w - 1, 0), (0, h - 1), (w - 1, h - 1), (w / 2, h / 2), (1.min(w - 1), 0), (0, 1.min(h - 1)), (1024.min(w - 1), 0), (1025.min(w - 1), h - 1), (2048.min(w - 1), 0), (2049.min(w - 1), h - 1)];
    // raster positions around powers of two (tables, tiles, bands) and the very last pixels (dropped tails)
    let n = w * h;
    for k in [8192usize, 32768, 65536, 131072, 262144, 1 << 20] {
        for d in [0usize, 1, 2] {
            for i in [k.saturating_sub(d), k + d] {
                if i < n {
                    v.push((i % w, i / w));
                }
            }
        }
    }
    for d in 1..=17usize.min(n) {
        v.push(((n - d) % w, (n - d) / w));
    }
    for _ in 0..120 {
        v.push((e.below(w as u64) as usize, e.below(h as u64) as usize));
    }
    v
}

fn yuv_planes_of(img: &Img) -> Vec<(usize, usize, Vec<u16>)> {
    match img {
        Img::Yuv8(y) => yuv_samples(y),
        Img::Yuv16(y) => yuv_samples(y),
        _ => unreachable!(),
    }
}

fn frames_equal(a: &Img, b: &Img) -> bool {
    match (a, b) {
        (Img::Yuv8(x), Img::Yuv8(y)) => x.data() == y.data() && x.config() == y.config(),
        (Img::Yuv16(x), Img::Yuv16(y)) => x.data() == y.data() && x.config() == y.config(),
        _ => a.same_bits(b),
    }
}

pub fn check(c: &Case, st: &mut Stats) -> Result<(), Violation> {
    st.evaluations += 1;
    let res = catch(|| check_inner(c));
    match res {
        Err(p) => Err(Violation { signature: "C11:panic".into(), message: format!("panic: {p}; case {}", c.to_json()), case: c.to_json() }),
        Ok(Err((sig, msg))) => Err(Violation { signature: format!("C11:{sig}"), message: format!("{msg}; case {}", c.to_json()), case: c.to_json() }),
        Ok(Ok(local)) => {
            st.merge(local);
            let (w, h) = c.dims();
            st.class(&format!("src_{}", kind_name(c.src)), 1);
            st.class(&format!("ss_{}{}", c.cfg.subsampling_x, c.cfg.subsampling_y), 1);
            if w > 1 && h > 1 {
                st.nontrivial(&c.to_json().to_string());
            }
            st.sample(|| c.to_json());
            Ok(())
        }
    }
}

fn check_inner(c: &Case) -> Result<Stats, (String, String)> {
    let mut st = Stats::new();
    let (w, h) = c.dims();
    let src = mk_src(c, c.pads, 7);
    let pristine = src.clone();
    let is_yuv = matches!(c.src, Kind::Yuv8 | Kind::Yuv16);
    let src_alt = if is_yuv { Some(mk_src(c, c.pads2, 0xABCD)) } else { None };
    let params = Params { cfg: c.cfg };
    // R7 (history independence): an image is its data. A source obtained through another conversion
    // (from a bland image) and then overwritten through data_mut() must convert exactly like a
    // fresh object holding the same data.
    let prov = if is_yuv { None } else { Some(provenance_src(c, &src)) };
    // R8 (no hidden state between calls): decoy configurations differing in one field
    let decoys = decoy_cfgs(&c.cfg);
    let all_edges = edges_from(c.src);
    let fresh_edge = all_edges[(c.seed >> 8) as usize % all_edges.len()];
    for e in all_edges {
        let en = edge_name(e);
        let out = apply(e, &src, &params).map_err(|err| (format!("error:{en}"), format!("{en} failed on a supported config: {err:?}")))?;
        // R5 borrowed / cloned sources are left unmodified
        if !frames_equal(&src, &pristine) {
            return Err((format!("source-modified:{en}"), format!("{en} modified its source image")));
        }
        // R1 dimensions
        if out.dims() != (w, h) {
            return Err((format!("dims:{en}"), format!("{en}: output is {:?}, input {}x{}", out.dims(), w, h)));
        }
        // R6 determinism
        let again = apply(e, &src, &params).map_err(|err| (format!("error:{en}"), format!("{err:?}")))?;
        if !out.same_bits(&again) {
            return Err((format!("nondeterministic:{en}"), format!("{en}: a second run differs")));
        }
        if let Some(pv) = &prov {
            let o3 = apply(e, pv, &params).map_err(|err| (format!("error:{en}"), format!("{err:?}")))?;
            if !out.same_bits(&o3) {
                return Err((
                    format!("history-dependent:{en}"),
                    format!("{en}: an image produced by an earlier conversion and then overwritten through data_mut() converts differently from a fresh image with the same data"),
                ));
            }
            st.class("provenance_pairs_compared", 1);
        }
        // R8: run the same conversion with decoy configs in between, then again, and in a fresh thread
        if w * h <= 1024 {
            for dc in &decoys {
                let dsrc = if is_yuv {
                    let mut c2 = c.clone();
                    c2.cfg = *dc;
                    if c2.src == Kind::Yuv8 {
                        c2.cfg.bit_depth = 8;
                    }
                    mk_src(&c2, c.pads, 7)
                } else {
                    src.clone()
                };
                let _ = apply(e, &dsrc, &Params { cfg: *dc });
            }
            let after = apply(e, &src, &params).map_err(|err| (format!("error:{en}"), format!("{err:?}")))?;
            if !out.same_bits(&after) {
                return Err((
                    format!("call-order-dependent:{en}"),
                    format!("{en}: the same conversion gives a different result after conversions with other configs ({:?}) ran on this thread", decoys.iter().map(cfg_json).collect::<Vec<_>>()),
                ));
            }
            if e == fresh_edge {
                let (s2, p2) = (src.clone(), Params { cfg: c.cfg });
                let fresh = std::thread::spawn(move || apply(e, &s2, &p2)).join().map_err(|_| (format!("panic:{en}"), "panic in a fresh thread".to_string()))?;
                match fresh {
                    Ok(f) if out.same_bits(&f) => {}
                    _ => {
                        return Err((format!("thread-state-dependent:{en}"), format!("{en}: the result differs from the same conversion run on a fresh thread")));
                    }
                }
                st.class("fresh_thread_comparisons", 1);
            }
            st.class("call_order_checks", 1);
        }
        // R4 layout independence (YUV sources rebuilt with other padding and padding contents)
        if let Some(alt) = &src_alt {
            let o2 = apply(e, alt, &params).map_err(|err| (format!("error:{en}"), format!("{err:?}")))?;
            if !out.same_bits(&o2) {
                return Err((format!("layout-dependent:{en}"), format!("{en}: result depends on plane padding / stride / padding contents (pads {:?} vs {:?})", c.pads, c.pads2)));
            }
            st.class("layout_pairs_compared", 1);
        }
        match &out {
            Img::Yuv8(_) | Img::Yuv16(_) => {
                // R3: subsampled encode against the 4:4:4 encode of the same image
                let mut c444 = c.cfg;
                c444.subsampling_x = 0;
                c444.subsampling_y = 0;
                let full = apply(e, &src, &Params { cfg: c444 }).map_err(|err| (format!("error:{en}"), format!("{err:?}")))?;
                let (po, pf) = (yuv_planes_of(&out), yuv_planes_of(&full));
                let (ssx, ssy) = (c.cfg.subsampling_x as usize, c.cfg.subsampling_y as usize);
                if (po[0].0, po[0].1) != (w, h) || po[0].2 != pf[0].2 {
                    return Err((format!("luma-differs:{en}"), format!("{en}: the luma plane of the subsampled encode differs from the 4:4:4 luma plane")));
                }
                for pl in 1..3 {
                    if (po[pl].0, po[pl].1) != (w >> ssx, h >> ssy) {
                        return Err((format!("chroma-size:{en}"), format!("{en}: chroma plane {pl} is {}x{}, expected {}x{}", po[pl].0, po[pl].1, w >> ssx, h >> ssy)));
                    }
                    let cw = w >> ssx;
                    for cy in 0..(h >> ssy) {
                        for cx in 0..cw {
                            let s = po[pl].2[cy * cw + cx];
                            let mut found = false;
                            for by in 0..(1usize << ssy) {
                                for bx in 0..(1usize << ssx) {
                                    let (x, y) = ((cx << ssx) + bx, (cy << ssy) + by);
                                    if pf[pl].2[y * w + x] == s {
                                        found = true;
                                    }
                                }
                            }
                            if !found {
                                return Err((
                                    format!("chroma-block:{en}"),
                                    format!("{en}: chroma plane {pl} sample ({cx},{cy}) = {s} is not the 4:4:4 chroma of any pixel of its own block"),
                                ));
                            }
                        }
                    }
                }
                // R2 on the 4:4:4 encode: every pixel equals the encode of the 1x1 image
                for (x, y) in positions(w, h, c.seed) {
                    let one = single_pixel(c, &src, x, y);
                    let o1 = apply(e, &one, &Params { cfg: c444 }).map_err(|err| (format!("error:{en}"), format!("{err:?}")))?;
                    let p1 = yuv_planes_of(&o1);
                    for pl in 0..3 {
                        if p1[pl].2[0] != pf[pl].2[y * w + x] {
                            return Err((
                                format!("not-pointwise:{en}"),
                                format!("{en}: output pixel ({x},{y}) plane {pl} is {} but the conversion of that pixel alone gives {}", pf[pl].2[y * w + x], p1[pl].2[0]),
                            ));
                        }
                    }
                    st.comparisons += 1;
                }
            }
            _ => {
                // R2: output pixel i equals the conversion of the 1x1 image made of input pixel i
                let od = out.float_data().unwrap();
                for (x, y) in positions(w, h, c.seed) {
                    let one = single_pixel(c, &src, x, y);
                    let o1 = apply(e, &one, &params).map_err(|err| (format!("error:{en}"), format!("{err:?}")))?;
                    let a = od[y * w + x];
                    let b = o1.float_data().unwrap()[0];
                    if (0..3).any(|i| a[i].to_bits() != b[i].to_bits()) {
                        return Err((
                            format!("not-pointwise:{en}"),
                            format!("{en}: output pixel ({x},{y}) is {:?} but the conversion of that pixel alone gives {:?}", a, b),
                        ));
                    }
                    st.comparisons += 1;
                }
            }
        }
        st.class("edges_checked", 1);
    }
    Ok(st)
}

pub fn run(ctx: &Ctx, st: &mut Stats) -> Vec<Violation> {
    let mut v = run_proptest(ctx, st, "images", ctx.cases(12_000, 400_000), strategy, check);
    if !v.is_empty() {
        return v;
    }
    // R9: model-based call histories (see c11_hist.rs)
    v.extend(run_proptest(ctx, st, "histories", ctx.cases(8_000, 400_000), super::c11_hist::strategy, super::c11_hist::check));
    if !v.is_empty() {
        return v;
    }
    // R10: order-permutation differential in fresh processes (see c11_order.rs)
    v.extend(super::c11_order::run(ctx, st));
    if !v.is_empty() {
        return v;
    }
    // R11: long single-thread histories (see soak.rs): the result may not depend on the number of earlier calls
    v.extend(super::soak::run(ctx, st, "C11", soak_jobs(ctx)));
    v
}

/// every conversion edge x four config variants (matrix, range, transfer, primaries changed) x periods
fn soak_jobs(ctx: &Ctx) -> Vec<super::soak::Job> {
    use super::soak::{with_periods, Side, PERIODS};
    let mut jobs = Vec::new();
    for kind in [Kind::Yuv8, Kind::Yuv16, Kind::Rgb, Kind::Lin, Kind::Xyb, Kind::Hsl] {
        for (ei, edge) in edges_from(kind).into_iter().enumerate() {
            let depth = if kind == Kind::Yuv8 { 8 } else { 10 };
            let a = crate::api::cfg(MC::BT709, yuvxyb::TransferCharacteristic::BT1886, CP::BT709, depth, false, (0, 0));
            let mut variants = Vec::new();
            let mut m = a;
            m.matrix_coefficients = MC::BT2020NonConstantLuminance;
            variants.push(m);
            let mut r = a;
            r.full_range = true;
            variants.push(r);
            let mut t = a;
            t.transfer_characteristics = yuvxyb::TransferCharacteristic::SRGB;
            variants.push(t);
            let mut p = a;
            p.color_primaries = CP::BT2020;
            variants.push(p);
            for (vi, b) in variants.into_iter().enumerate() {
                // the light mode (secondary build configurations) keeps one variant per edge
                if ctx.light && vi != ei % 4 {
                    continue;
                }
                jobs.extend(with_periods(Side { kind, edge, cfg: a }, Side { kind, edge, cfg: b }, &PERIODS));
            }
        }
    }
    jobs
}

pub fn replay(v: &Value) -> Result<(), String> {
    if v.get("part").and_then(|p| p.as_str()) == Some("history") {
        return super::c11_hist::replay(v);
    }
    if v.get("part").and_then(|p| p.as_str()) == Some("soak") {
        return super::soak::replay("C11", v);
    }
    if v.get("part").and_then(|p| p.as_str()) == Some("order") {
        return super::c11_order::replay(v);
    }
    check(&Case::from_json(v).ok_or("bad case")?, &mut Stats::new()).map_err(|v| v.message)
}

pub const RULE: &str = "cases = (source type in {Yuv<u8>, Yuv<u16>, Rgb, LinearRgb, Xyb, Hsl}, any working config (7 standard + 5 primaries-derived matrices) with one of 6 subsamplings, size 1..=64 x 1..=64 (one case in seven: a thin image 1025..4200 pixels wide; one in 300: a real-size frame of 32768 .. 2 M pixels) rounded to a multiple of the subsampling, random content (a third of the images with related neighbours: runs, partly equal pixels, pixels equal to the converted previous pixel), two independent padding layouts 0..=32 with different padding contents) generated by proptest; every conversion edge leaving the source type is run (18 From/TryFrom impls in total, by reference and by value, u8 and u16 outputs). Metamorphic relations: R1 dimensions preserved; R2 output pixel i is bit-identical to the conversion of the 1x1 image made of input pixel i (YUV sources: Y(x,y) with the chroma sample at (x>>ss_x, y>>ss_y)), on all pixels of images up to 256 pixels and 127 positions (corners + random) of larger ones; R3 encode to subsampled YUV: luma equals the 4:4:4 luma plane, each chroma sample equals the 4:4:4 chroma of a pixel of its own block, plane sizes (w>>ss_x, h>>ss_y); R4 YUV sources rebuilt with another padding/stride and other padding contents give bit-identical output; R5 sources compare equal to a clone taken before; R6 a second run is bit-identical; R7 a float source obtained through an earlier conversion from a bland image and overwritten through data_mut() converts exactly like a fresh image with the same data; R8 the result is unchanged after conversions with decoy configs (one field changed) ran on the same thread, and equals the result computed on a fresh thread; R9 model-based call histories: 3..12 operations (construct, convert with one of 4 configs differing in one field, paint through data_mut()) over a pool of 3 image slots, every conversion compared with the same conversion of a replica rebuilt from the observable state (data, dims, labels) on a fresh thread; R10 order-permutation differential: a fixed list of ~480 constructor and conversion calls (tiny and real-size images, configs differing in one field, Unspecified metadata, frame shapes of equal area) executed in four different orders, each in a fresh process, must give the same result call by call; R11 long single-thread histories: for every conversion edge, four config variants and periods P in {255, 256, 65535, 65536}, 2P+3 conversions of 1x1 images (call j = pixel j mod P under config (j / P) mod 2) must each be bit-identical to the corresponding pixel of the whole P x 1 image converted on a fresh thread (no dependence on the number of earlier calls: wrapping epochs / generation counters). non-trivial = image with w>1 and h>1; distinct = by hash of the case";
