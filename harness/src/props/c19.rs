//! C19 The 3x3 matrix/vector algebra agrees with its mathematical definition.

use crate::engine::*;
use crate::oracle::{mat_det, mat_mul, mat_vec, M3};
use proptest::prelude::*;
use serde_json::{json, Value};
use yuvxyb_math::{ColVector, Matrix, RowVector};

#[derive(Debug, Clone)]
pub struct Case {
    pub a: [[f32; 3]; 3],
    pub b: [[f32; 3]; 3],
    pub u: [f32; 3],
    pub v: [f32; 3],
    pub s: f32,
}

fn entry() -> impl Strategy<Value = f32> {
    prop_oneof![
        4 => (-2.0f32..=2.0),
        2 => (-2i32..=2).prop_map(|i| i as f32),
        1 => (-8i32..=8).prop_map(|i| i as f32 * 0.25),
        1 => (-1e-3f32..1e-3),
    ]
}
fn vec3() -> impl Strategy<Value = [f32; 3]> {
    [entry(), entry(), entry()]
}
fn colour_matrices() -> Vec<[[f32; 3]; 3]> {
    vec![
        [[0.2126, 0.7152, 0.0722], [-0.1146, -0.3854, 0.5], [0.5, -0.4542, -0.0458]],
        [[0.299, 0.587, 0.114], [-0.168736, -0.331264, 0.5], [0.5, -0.418688, -0.081312]],
        [[0.25, 0.5, 0.25], [-0.25, 0.5, -0.25], [0.5, 0.0, -0.5]],
        [[0.8951, 0.2664, -0.1614], [-0.7502, 1.7135, 0.0367], [0.0389, -0.0685, 1.0296]],
        [[0.4124, 0.3576, 0.1805], [0.2126, 0.7152, 0.0722], [0.0193, 0.1192, 0.9505]],
        [[0.30, 0.622, 0.078], [0.23, 0.692, 0.078], [0.2434, 0.2048, 0.5518]],
    ]
}
fn matrix() -> impl Strategy<Value = [[f32; 3]; 3]> {
    let perms: [[usize; 3]; 6] = [[0, 1, 2], [0, 2, 1], [1, 0, 2], [1, 2, 0], [2, 0, 1], [2, 1, 0]];
    prop_oneof![
        6 => [vec3(), vec3(), vec3()],
        1 => vec3().prop_map(|d| [[d[0], 0.0, 0.0], [0.0, d[1], 0.0], [0.0, 0.0, d[2]]]),
        1 => (0usize..6, vec3()).prop_map(move |(p, d)| {
            let mut m = [[0.0f32; 3]; 3];
            for i in 0..3 { m[i][perms[p][i]] = if d[i] == 0.0 { 1.0 } else { d[i] }; }
            m
        }),
        // near-singular: two nearly equal rows
        1 => (vec3(), vec3(), -1e-2f32..1e-2).prop_map(|(r, q, e)| [r, [(r[0] + e).clamp(-2.0, 2.0), r[1], r[2]], q]),
        1 => (0usize..6).prop_map(|i| colour_matrices()[i]),
        // nearly diagonal: a diagonal matrix plus off-diagonal entries of one small scale (1e-7 .. 1e-2)
        1 => (vec3(), (-7.0f32..-2.0), any::<u64>()).prop_map(|(d, e, seed)| {
            let mut ex = Expand(seed);
            let sc = 10f32.powf(e);
            let mut m = [[0f32; 3]; 3];
            for i in 0..3 {
                for j in 0..3 {
                    m[i][j] = if i == j { if d[i].abs() < 0.5 { 1.0 } else { d[i] } } else { sc * (2.0 * ex.unit() as f32 - 1.0) };
                }
            }
            m
        }),
        // sparse: every entry is zero with probability one half
        1 => ([vec3(), vec3(), vec3()], any::<u16>()).prop_map(|(mut m, mask)| {
            for i in 0..3 {
                for j in 0..3 {
                    if mask >> (i * 3 + j) & 1 == 1 {
                        m[i][j] = 0.0;
                    }
                }
            }
            m
        }),
        // rotations (Euler angles), exactly or nearly orthonormal: scaled by 1 + eps, entries perturbed by eps
        2 => (0.0f64..6.3, 0.0f64..6.3, 0.0f64..6.3, prop_oneof![Just(0.0f64), (-7.0f64..-2.0).prop_map(|e| 10f64.powf(e))], any::<bool>(), any::<u64>()).prop_map(|(a, b, c, eps, neg, seed)| {
            let (sa, ca, sb, cb, sc, cc) = (a.sin(), a.cos(), b.sin(), b.cos(), c.sin(), c.cos());
            let r = [
                [cb * cc, sa * sb * cc - ca * sc, ca * sb * cc + sa * sc],
                [cb * sc, sa * sb * sc + ca * cc, ca * sb * sc - sa * cc],
                [-sb, sa * cb, ca * cb],
            ];
            let mut e = Expand(seed);
            let scale = if e.below(2) == 0 { 1.0 + eps * if neg { -1.0 } else { 1.0 } } else { 1.0 };
            let mut m = [[0f32; 3]; 3];
            for i in 0..3 {
                for j in 0..3 {
                    let pert = if scale == 1.0 { eps * (2.0 * e.unit() - 1.0) } else { 0.0 };
                    m[i][j] = (r[i][j] * scale + pert) as f32;
                }
            }
            m
        }),
    ]
}

pub fn strategy() -> BoxedStrategy<Case> {
    (matrix(), matrix(), vec3(), vec3(), prop_oneof![4 => (0.25f32..=2.0), 4 => (-2.0f32..=-0.25), 1 => (-44i32..=38, any::<bool>()).prop_map(|(e, n)| {
            let s = (10f64.powi(e) as f32) * if n { -1.0 } else { 1.0 };
            if s == 0.0 || !s.is_finite() { 1.0 } else { s }
        })])
        .prop_map(|(a, b, u, v, s)| Case { a, b, u, v, s })
        .boxed()
}

fn to64(a: [[f32; 3]; 3]) -> M3 {
    let mut m = [[0.0; 3]; 3];
    for i in 0..3 {
        for j in 0..3 {
            m[i][j] = a[i][j] as f64;
        }
    }
    m
}
fn v64(a: [f32; 3]) -> [f64; 3] {
    [a[0] as f64, a[1] as f64, a[2] as f64]
}
fn m32(a: [[f32; 3]; 3]) -> Matrix<f32> {
    Matrix::new(RowVector::new(a[0][0], a[0][1], a[0][2]), RowVector::new(a[1][0], a[1][1], a[1][2]), RowVector::new(a[2][0], a[2][1], a[2][2]))
}
fn m64(a: M3) -> Matrix<f64> {
    Matrix::new(RowVector::new(a[0][0], a[0][1], a[0][2]), RowVector::new(a[1][0], a[1][1], a[1][2]), RowVector::new(a[2][0], a[2][1], a[2][2]))
}

fn close(got: f64, exact: f64) -> bool {
    (got - exact).abs() <= 1e-5 * exact.abs().max(1.0)
}

fn cmp_mat(name: &str, got: [[f64; 3]; 3], exact: M3, worst: &mut f64) -> Result<(), String> {
    for i in 0..3 {
        for j in 0..3 {
            if !close(got[i][j], exact[i][j]) {
                return Err(format!("{name}[{i}][{j}] = {:e}, exact {:e}", got[i][j], exact[i][j]));
            }
            *worst = worst.max((got[i][j] - exact[i][j]).abs() / exact[i][j].abs().max(1.0));
        }
    }
    Ok(())
}
fn cmp_vec(name: &str, got: [f64; 3], exact: [f64; 3], worst: &mut f64) -> Result<(), String> {
    for i in 0..3 {
        if !close(got[i], exact[i]) {
            return Err(format!("{name}[{i}] = {:e}, exact {:e}", got[i], exact[i]));
        }
        *worst = worst.max((got[i] - exact[i]).abs() / exact[i].abs().max(1.0));
    }
    Ok(())
}
fn up(m: [[f32; 3]; 3]) -> [[f64; 3]; 3] {
    to64(m)
}

fn check_inner(c: &Case, st: &mut Stats) -> Result<(), String> {
    let (a, b, u, v, s) = (c.a, c.b, c.u, c.v, c.s);
    let (a6, b6, u6, v6, s6) = (to64(a), to64(b), v64(u), v64(v), s as f64);
    let mut worst = 0.0f64;
    let ident: M3 = [[1.0, 0.0, 0.0], [0.0, 1.0, 0.0], [0.0, 0.0, 1.0]];
    // exact references (f64 naive loops)
    let ab = mat_mul(a6, b6);
    let au = mat_vec(a6, u6);
    let cross = [u6[1] * v6[2] - u6[2] * v6[1], u6[2] * v6[0] - u6[0] * v6[2], u6[0] * v6[1] - u6[1] * v6[0]];
    let dot = u6[0] * v6[0] + u6[1] * v6[1] + u6[2] * v6[2];
    let at: M3 = [[a6[0][0], a6[1][0], a6[2][0]], [a6[0][1], a6[1][1], a6[2][1]], [a6[0][2], a6[1][2], a6[2][2]]];

    // ---------------- f32 instantiation
    {
        let ma = m32(a);
        let mb = m32(b);
        cmp_mat("f32 mul_mat", up(ma.mul_mat(mb.clone()).values()), ab, &mut worst)?;
        cmp_vec("f32 mul_vec", v64(ma.mul_vec(&ColVector::new(u[0], u[1], u[2])).values()), au, &mut worst)?;
        cmp_vec("f32 mul_arr", v64(ma.mul_arr(u)), au, &mut worst)?;
        let t = ma.clone().transpose();
        if up(t.clone().values()) != at {
            return Err(format!("f32 transpose wrong: {:?}", t.values()));
        }
        if t.transpose().values() != a {
            return Err("f32 transpose is not an involution".into());
        }
        let ru = RowVector::new(u[0], u[1], u[2]);
        let rv = RowVector::new(v[0], v[1], v[2]);
        cmp_vec("f32 cross", v64(ru.cross(&rv).values()), cross, &mut worst)?;
        if !close(ru.dot(&rv) as f64, dot) {
            return Err(format!("f32 dot = {:e}, exact {:e}", ru.dot(&rv), dot));
        }
        // scalars of any magnitude (incl. subnormal): compared where the exact quotients are zero or normal f32 values
        let q_ok = |q: f64| q == 0.0 || (q.abs() > 1e-37 && q.abs() < 1e37);
        let sd_ok = u6.iter().all(|x| q_ok(x / s6)) && a6.iter().flatten().all(|x| q_ok(x / s6));
        {
            // element by element: every quotient that is representable is judged
            let got = v64(ru.scalar_div(s).values());
            for i in 0..3 {
                let ex = u6[i] / s6;
                if q_ok(ex) {
                    if !close(got[i], ex) {
                        return Err(format!("f32 scalar_div[{i}] = {:e}, exact {:e} (dividing {:e} by {:e})", got[i], ex, u6[i], s6));
                    }
                } else {
                    st.class("scalar_div_quotient_outside_f32_normal_range_not_compared", 1);
                }
            }
        }
        cmp_vec("f32 component_mul", v64(ru.component_mul(&rv).values()), [u6[0] * v6[0], u6[1] * v6[1], u6[2] * v6[2]], &mut worst)?;
        let sd = ma.scalar_div(s).values();
        let mut ex = a6;
        for r in ex.iter_mut() {
            for x in r.iter_mut() {
                *x /= s6;
            }
        }
        if sd_ok {
            cmp_mat("f32 Matrix::scalar_div", up(sd), ex, &mut worst)?;
        } else {
            st.class("scalar_div_quotient_outside_f32_normal_range_not_compared", 1);
        }
        // accessors
        if [ru.x(), ru.y(), ru.z()] != u || RowVector::from(u).values() != u || ColVector::from(u).values() != u {
            return Err("f32 vector accessors/From disagree".into());
        }
        let cu = ColVector::new(u[0], u[1], u[2]);
        if [cu.r(), cu.g(), cu.b()] != u || cu.clone().transpose().values() != u {
            return Err("f32 ColVector accessors/transpose disagree".into());
        }
        if ma.r1().clone().values() != a[0] || ma.r2().clone().values() != a[1] || ma.r3().clone().values() != a[2] {
            return Err("f32 row accessors disagree".into());
        }
        // identity neutral, bitwise up to the sign of zero (x*1 + y*0 + z*0 is exact)
        let id = Matrix::<f32>::identity();
        let ia = id.mul_mat(ma.clone()).values();
        let ai = ma.mul_mat(Matrix::<f32>::identity()).values();
        for i in 0..3 {
            for j in 0..3 {
                if ia[i][j] != a[i][j] || ai[i][j] != a[i][j] {
                    return Err(format!("f32 identity is not neutral at [{i}][{j}]: {:e} / {:e} vs {:e}", ia[i][j], ai[i][j], a[i][j]));
                }
            }
        }
        if id.mul_arr(u) != u || v64(id.mul_vec(&cu).values()) != u6 {
            return Err("f32 identity changes a vector".into());
        }
        if up(id.values()) != ident {
            return Err("f32 identity() is not the identity".into());
        }
        let det = mat_det(a6);
        if det.abs() >= 0.5 {
            let inv = ma.invert();
            let p1 = up(ma.mul_mat(inv.clone()).values());
            let p2 = up(inv.mul_mat(ma.clone()).values());
            for i in 0..3 {
                for j in 0..3 {
                    let e1 = (p1[i][j] - ident[i][j]).abs();
                    let e2 = (p2[i][j] - ident[i][j]).abs();
                    if !(e1 <= 1e-4 && e2 <= 1e-4) {
                        return Err(format!("f32 A*inv(A) / inv(A)*A differs from I at [{i}][{j}] by {:e} / {:e} (det {:e})", e1, e2, det));
                    }
                    st.max("max_inverse_residual_f32", e1.max(e2));
                }
            }
            st.class("invertible_det_ge_0.5", 1);
        } else {
            st.class("det_below_0.5_inverse_not_checked", 1);
        }
    }
    // ---------------- f64 instantiation
    {
        let ma = m64(a6);
        let mb = m64(b6);
        cmp_mat("f64 mul_mat", ma.mul_mat(mb).values(), ab, &mut worst)?;
        cmp_vec("f64 mul_vec", ma.mul_vec(&ColVector::new(u6[0], u6[1], u6[2])).values(), au, &mut worst)?;
        cmp_vec("f64 mul_arr", ma.mul_arr(u6), au, &mut worst)?;
        if ma.clone().transpose().values() != at || ma.clone().transpose().transpose().values() != a6 {
            return Err("f64 transpose wrong".into());
        }
        let ru = RowVector::new(u6[0], u6[1], u6[2]);
        let rv = RowVector::new(v6[0], v6[1], v6[2]);
        cmp_vec("f64 cross", ru.cross(&rv).values(), cross, &mut worst)?;
        if !close(ru.dot(&rv), dot) {
            return Err(format!("f64 dot = {:e}, exact {:e}", ru.dot(&rv), dot));
        }
        cmp_vec("f64 scalar_div", ru.scalar_div(s6).values(), [u6[0] / s6, u6[1] / s6, u6[2] / s6], &mut worst)?;
        cmp_vec("f64 component_mul", ru.component_mul(&rv).values(), [u6[0] * v6[0], u6[1] * v6[1], u6[2] * v6[2]], &mut worst)?;
        let id = Matrix::<f64>::identity();
        if id.mul_mat(ma.clone()).values() != a6 || ma.mul_mat(Matrix::<f64>::identity()).values() != a6 || id.mul_arr(u6) != u6 {
            return Err("f64 identity is not neutral".into());
        }
        let det = mat_det(a6);
        if det.abs() >= 0.5 {
            let inv = ma.invert();
            let p1 = ma.mul_mat(inv.clone()).values();
            let p2 = inv.mul_mat(ma.clone()).values();
            for i in 0..3 {
                for j in 0..3 {
                    let e = (p1[i][j] - ident[i][j]).abs().max((p2[i][j] - ident[i][j]).abs());
                    if !(e <= 1e-4) {
                        return Err(format!("f64 A*inv(A) differs from I at [{i}][{j}] by {:e}", e));
                    }
                }
            }
            // f32 and f64 instantiations behave alike: the two inverses agree
            let i32v = up(m32(a).invert().values());
            let i64v = inv.values();
            for i in 0..3 {
                for j in 0..3 {
                    let tol = 1e-4 * i64v[i][j].abs().max(1.0);
                    if !((i32v[i][j] - i64v[i][j]).abs() <= tol) {
                        return Err(format!("f32 and f64 invert() disagree at [{i}][{j}]: {:e} vs {:e}", i32v[i][j], i64v[i][j]));
                    }
                }
            }
        }
    }
    st.max("max_rel_err", worst);
    Ok(())
}

fn case_json(c: &Case) -> Value {
    let m = |a: [[f32; 3]; 3]| json!([px2j(a[0]), px2j(a[1]), px2j(a[2])]);
    json!({"prop":"C19","a":m(c.a),"b":m(c.b),"u":px2j(c.u),"v":px2j(c.v),"s":f2j(c.s)})
}

pub fn check(c: &Case, st: &mut Stats) -> Result<(), Violation> {
    st.evaluations += 1;
    let r = catch(|| {
        let mut local = Stats::new();
        let r = check_inner(c, &mut local);
        (r, local)
    });
    match r {
        Err(p) => Err(Violation { signature: "C19:panic".into(), message: format!("panic: {p}"), case: case_json(c) }),
        Ok((Err(m), _)) => {
            let op = m.split(' ').take(2).collect::<Vec<_>>().join("_");
            Err(Violation { signature: format!("C19:{op}"), message: m, case: case_json(c) })
        }
        Ok((Ok(()), local)) => {
            st.merge(local);
            st.comparisons += 1;
            let bits: Vec<u32> = c.a.iter().chain(c.b.iter()).flatten().chain(c.u.iter()).chain(c.v.iter()).map(|x| x.to_bits()).collect();
            let trivial = c.a == [[0.0; 3]; 3] || c.u == [0.0; 3];
            if !trivial {
                st.nontrivial(&bits);
            }
            st.sample(|| case_json(c));
            Ok(())
        }
    }
}

pub fn run(ctx: &Ctx, st: &mut Stats) -> Vec<Violation> {
    run_proptest(ctx, st, "random", ctx.cases(1_000_000, 20_000_000), strategy, check)
}

pub fn replay(v: &Value) -> Result<(), String> {
    let m = |k: &str| -> Option<[[f32; 3]; 3]> {
        let a = v.get(k)?.as_array()?;
        Some([j2px(a.get(0)?)?, j2px(a.get(1)?)?, j2px(a.get(2)?)?])
    };
    let c = Case { a: m("a").ok_or("a")?, b: m("b").ok_or("b")?, u: j2px(v.get("u").ok_or("u")?).ok_or("u")?, v: j2px(v.get("v").ok_or("v")?).ok_or("v")?, s: j2f(v.get("s").ok_or("s")?).ok_or("s")? };
    check(&c, &mut Stats::new()).map_err(|v| v.message)
}

pub const RULE: &str = "cases = (A, B 3x3 matrices, u, v 3-vectors, scalar s) with entries in [-2,2] generated by proptest: uniform, small integers, quarter steps, tiny values; structured matrices: diagonal, scaled permutation, near-singular (two nearly equal rows), colour matrices, nearly diagonal matrices (off-diagonal scale 1e-7..1e-2), sparse matrices (each entry zero with probability 1/2), rotations and nearly orthonormal matrices (scaled by 1+-eps or perturbed by eps, eps log-uniform 1e-7..1e-2); scalars in +-[0.25,2] and of every decimal magnitude 1e-44..1e38 (quotients compared where they are zero or normal f32 values); every public method of Matrix/RowVector/ColVector in both the f32 and the f64 instantiation compared with naive f64 loops (tol 1e-5*max(1,|exact|)); transpose involution and identity neutrality exact; for |det| >= 0.5 A*inv(A) and inv(A)*A within 1e-4 of I and the f32/f64 inverses agree; non-trivial = A and u non-zero; distinct = by hash of all entries' bits";
