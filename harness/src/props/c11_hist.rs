//! C11, relation R9: model-based call histories.
//!
//! The model of the library is "an image is its observable state": data, dimensions and labels.
//! A history is a sequence of operations over a small pool of image slots (construct, convert with a
//! config from a small pool, paint through `data_mut()`). After every conversion the result must be
//! bit-identical to the same conversion applied, on a fresh thread, to a *replica* of the source that
//! was rebuilt from its observable state with the public constructors. Any dependence on how an object
//! came to be (hidden flags), on earlier calls (memoisation with an incomplete key), on the thread, or
//! on the allocation shows up as a difference.

use super::c11::working_cfg;
use super::hist::frame_of;
use crate::api::cfg_json;
use crate::conv::*;
use crate::engine::*;
use proptest::prelude::*;
use serde_json::{json, Value};
use yuvxyb::{ColorPrimaries as CP, Hsl, LinearRgb, MatrixCoefficients as MC, Rgb, Xyb, Yuv, YuvConfig};

#[derive(Debug, Clone)]
pub enum Op {
    /// put a new float image into a slot
    New { slot: u8, kind: u8, seed: u64 },
    /// convert slot `src` with edge choice `edge` and config `cfg` of the pool; store the result in `dst`
    Convert { src: u8, edge: u8, cfg: u8, dst: u8 },
    /// overwrite the data of a float image through data_mut()
    Paint { slot: u8, seed: u64 },
}

#[derive(Debug, Clone)]
pub struct Case {
    pub base: YuvConfig,
    pub bw: usize,
    pub bh: usize,
    pub ops: Vec<Op>,
}

const SLOTS: usize = 3;

impl Case {
    fn to_json(&self) -> Value {
        let ops: Vec<Value> = self
            .ops
            .iter()
            .map(|o| match o {
                Op::New { slot, kind, seed } => json!({"op":"new","slot":slot,"kind":kind,"seed":seed.to_string()}),
                Op::Convert { src, edge, cfg, dst } => json!({"op":"convert","src":src,"edge":edge,"cfg":cfg,"dst":dst}),
                Op::Paint { slot, seed } => json!({"op":"paint","slot":slot,"seed":seed.to_string()}),
            })
            .collect();
        json!({"prop":"C11","part":"history","base":cfg_json(&self.base),"bw":self.bw,"bh":self.bh,"ops":ops})
    }
    pub fn from_json(v: &Value) -> Option<Case> {
        let ops = v
            .get("ops")?
            .as_array()?
            .iter()
            .filter_map(|o| {
                let g = |k: &str| o.get(k).and_then(|x| x.as_u64()).map(|x| x as u8);
                let s = |k: &str| o.get(k).and_then(|x| x.as_str()).and_then(|x| x.parse::<u64>().ok());
                Some(match o.get("op")?.as_str()? {
                    "new" => Op::New { slot: g("slot")?, kind: g("kind")?, seed: s("seed")? },
                    "convert" => Op::Convert { src: g("src")?, edge: g("edge")?, cfg: g("cfg")?, dst: g("dst")? },
                    _ => Op::Paint { slot: g("slot")?, seed: s("seed")? },
                })
            })
            .collect();
        Some(Case {
            base: crate::api::cfg_from_json(v.get("base")?)?,
            bw: v.get("bw")?.as_u64()? as usize,
            bh: v.get("bh")?.as_u64()? as usize,
            ops,
        })
    }
    fn dims(&self) -> (usize, usize) {
        (self.bw << self.base.subsampling_x, self.bh << self.base.subsampling_y)
    }
    /// the pool of configs: the base config and variants that differ from it in exactly one field
    fn cfg_pool(&self) -> [YuvConfig; 6] {
        let c = self.base;
        let mut m = c;
        m.matrix_coefficients = if c.matrix_coefficients == MC::BT709 { MC::ST2085 } else { MC::BT709 };
        let mut p = c;
        p.color_primaries = if c.color_primaries == CP::BT709 { CP::BT2020 } else { CP::BT709 };
        let mut r = c;
        r.full_range = !c.full_range;
        // two configs whose conversions fail (reserved matrix; primaries-derived matrix with unsupported primaries), with
        // another range: a failing call must leave nothing behind for the next one
        let mut bad = r;
        bad.matrix_coefficients = MC::Reserved;
        let mut bad2 = c;
        bad2.matrix_coefficients = MC::ChromaticityDerivedNonConstantLuminance;
        bad2.color_primaries = CP::Reserved0;
        [c, m, p, r, bad, bad2]
    }
}

pub fn strategy() -> BoxedStrategy<Case> {
    let op = prop_oneof![
        2 => (0u8..SLOTS as u8, 0u8..4, any::<u64>()).prop_map(|(slot, kind, seed)| Op::New { slot, kind, seed }),
        6 => (0u8..SLOTS as u8, any::<u8>(), prop_oneof![4 => 0u8..4, 1 => 4u8..6], 0u8..SLOTS as u8).prop_map(|(src, edge, cfg, dst)| Op::Convert { src, edge, cfg, dst }),
        2 => (0u8..SLOTS as u8, any::<u64>()).prop_map(|(slot, seed)| Op::Paint { slot, seed }),
    ];
    (working_cfg(), 1usize..=3, 1usize..=2, prop::collection::vec(op, 3..=12))
        .prop_map(|(base, bw, bh, ops)| Case { base, bw, bh, ops })
        .boxed()
}

fn data_for(seed: u64, n: usize, kind: Kind) -> Vec<[f32; 3]> {
    let mut e = Expand(seed);
    let style = e.below(5);
    (0..n)
        .map(|i| {
            let mut p = match style {
                0 => [0.5f32; 3],                                      // bland: flat grey
                1 => [(i as f32 + 1.0) / (n as f32 + 1.0); 3],         // grey ramp
                2 => [e.range_f64(-0.25, 1.25) as f32, e.range_f64(-0.25, 1.25) as f32, e.range_f64(-0.25, 1.25) as f32],
                4 => {
                    // special values (NaN, infinities, huge, subnormal) mixed with in-range values
                    let mut q = [e.unit() as f32, e.unit() as f32, e.unit() as f32];
                    q[e.below(3) as usize] = f32::from_bits(*e.pick(&super::hist::SPECIAL_F32));
                    q
                }
                _ => [e.unit() as f32, e.unit() as f32, e.unit() as f32],
            };
            if kind == Kind::Hsl {
                p = [(p[0] * 300.0).clamp(0.0, 359.0), if style < 2 { 0.0 } else { p[1].clamp(0.0, 1.0) }, p[2].clamp(0.0, 1.0)];
            }
            p
        })
        .collect()
}

/// rebuild an image from its observable state with the public constructors
fn replica(img: &Img) -> Img {
    match img {
        Img::Yuv8(y) => Img::Yuv8(Yuv::new(frame_of(y), y.config()).expect("an existing Yuv is re-accepted")),
        Img::Yuv16(y) => Img::Yuv16(Yuv::new(frame_of(y), y.config()).expect("an existing Yuv is re-accepted")),
        Img::Rgb(r) => Img::Rgb(Rgb::new(r.data().to_vec(), r.width(), r.height(), r.transfer(), r.primaries()).unwrap()),
        Img::Lin(l) => Img::Lin(LinearRgb::new(l.data().to_vec(), l.width(), l.height()).unwrap()),
        Img::Xyb(x) => Img::Xyb(Xyb::new(x.data().to_vec(), x.width(), x.height()).unwrap()),
        Img::Hsl(h) => Img::Hsl(Hsl::new(h.data().to_vec(), h.width(), h.height()).unwrap()),
    }
}

fn paint(img: &mut Img, data: &[[f32; 3]]) -> bool {
    match img {
        Img::Rgb(r) => r.data_mut().copy_from_slice(data),
        Img::Lin(r) => r.data_mut().copy_from_slice(data),
        Img::Xyb(r) => r.data_mut().copy_from_slice(data),
        Img::Hsl(r) => r.data_mut().copy_from_slice(data),
        _ => return false,
    }
    true
}

fn same_result(a: &Result<Img, yuvxyb::ConversionError>, b: &Result<Img, yuvxyb::ConversionError>) -> bool {
    match (a, b) {
        (Ok(x), Ok(y)) => x.same_bits(y),
        (Err(x), Err(y)) => x == y,
        _ => false,
    }
}

pub fn check(c: &Case, st: &mut Stats) -> Result<(), Violation> {
    st.evaluations += 1;
    let fail = |sig: &str, msg: String| Violation { signature: format!("C11:history:{sig}"), message: format!("{msg}; case {}", c.to_json()), case: c.to_json() };
    let (w, h) = c.dims();
    let pool = c.cfg_pool();
    let kinds = [Kind::Rgb, Kind::Lin, Kind::Xyb, Kind::Hsl];
    let mut slots: Vec<Option<Img>> = vec![None; SLOTS];
    // slot 0 starts with a float image so that every history has something to convert
    slots[0] = Some(float_img(Kind::Lin, data_for(1, w * h, Kind::Lin), w, h, c.base.transfer_characteristics, c.base.color_primaries));
    let mut conversions = 0u64;
    let mut painted = false;
    for (i, op) in c.ops.iter().enumerate() {
        match op {
            Op::New { slot, kind, seed } => {
                let k = kinds[*kind as usize % 4];
                slots[*slot as usize % SLOTS] = Some(float_img(k, data_for(*seed, w * h, k), w, h, c.base.transfer_characteristics, c.base.color_primaries));
            }
            Op::Paint { slot, seed } => {
                if let Some(img) = slots[*slot as usize % SLOTS].as_mut() {
                    let k = img.kind();
                    if paint(img, &data_for(*seed, w * h, k)) {
                        painted = true;
                    }
                }
            }
            Op::Convert { src, edge, cfg, dst } => {
                let Some(simg) = slots[*src as usize % SLOTS].clone() else { continue };
                let edges = edges_from(simg.kind());
                let e = edges[*edge as usize % edges.len()];
                let p = Params { cfg: pool[*cfg as usize % pool.len()] };
                // the actual call: on this thread, on the object with its whole history
                let actual = match catch(|| apply(e, &simg, &p)) {
                    Ok(r) => r,
                    Err(pn) => return Err(fail("panic", format!("op #{i} {e:?} panicked: {pn}"))),
                };
                // the model: the same call on a replica rebuilt from the observable state, on a fresh thread
                let rep = replica(&simg);
                let expect = std::thread::spawn(move || apply(e, &rep, &p)).join().map_err(|_| fail("panic", format!("op #{i} {e:?} panicked on the replica")))?;
                if !same_result(&actual, &expect) {
                    return Err(fail(
                        "diverges-from-model",
                        format!(
                            "op #{i}: {e:?} with config {} gives a different result on the object with its history (earlier conversions / data_mut()) than on a replica rebuilt from its observable state on a fresh thread",
                            cfg_json(&p.cfg)
                        ),
                    ));
                }
                conversions += 1;
                if let Ok(img) = actual {
                    slots[*dst as usize % SLOTS] = Some(img);
                }
            }
        }
    }
    st.comparisons += conversions;
    st.class("history_conversions", conversions);
    if painted {
        st.class("histories_with_data_mut", 1);
    }
    if conversions >= 2 {
        st.nontrivial(&c.to_json().to_string());
    }
    st.sample(|| c.to_json());
    Ok(())
}

pub fn replay(v: &Value) -> Result<(), String> {
    check(&Case::from_json(v).ok_or("bad history case")?, &mut Stats::new()).map_err(|v| v.message)
}
