//! C13 Conversions are total on arbitrary float data and always emit valid codes.

use super::hist::*;
use crate::api::cfg;
use crate::conv::*;
use crate::engine::*;
use crate::oracle::STD_MC;
use serde_json::{json, Value};
use yuvxyb::{ColorPrimaries as CP, Rgb, TransferCharacteristic as TC, Yuv, YuvConfig};

pub fn check(f: &FloatCase, st: &mut Stats) -> Result<(), Violation> {
    journal(|| f.to_json("C13"));
    st.evaluations += 1;
    let px = f.pixels();
    if px.len() % 8 == 3 || f.ops.first().map(|o| o % 8 == 3).unwrap_or(false) {
        // now and then the previous call on this thread is one *outside* the domain (an odd-sized image with a subsampled
        // config, here with a primaries-derived matrix): it may fail or panic - contained and ignored - but must leave
        // nothing behind that makes the calls inside the domain fail
        let mut cx = f.cfg;
        cx.subsampling_x = 1;
        cx.subsampling_y = 1;
        cx.bit_depth = 8;
        cx.matrix_coefficients = super::c11::WORKING_MC[7 + (px.len() + f.ops.len()) % 5];
        cx.color_primaries = [CP::BT470BG, CP::ST170M, CP::P3Display, CP::Film][f.ops.len() % 4];
        let _ = catch(|| {
            let r = Rgb::new(vec![[0.25f32, 0.5, 0.75]; 9], 3, 3, TC::BT1886, cx.color_primaries).map_err(|_| ())?;
            Yuv::<u8>::try_from((&r, cx)).map(|_| ()).map_err(|_| ())
        });
        st.class("preceded_by_an_out_of_domain_call", 1);
    }
    let start = float_img(f.kind, px.clone(), f.w, f.h, f.cfg.transfer_characteristics, f.cfg.color_primaries);
    let rep = run_history(start, &f.cfg, &f.ops);
    let in_unit = px.iter().all(|p| p.iter().all(|x| x.is_finite() && *x >= 0.0 && *x <= 1.0));
    let fail = |sig: String, msg: String| Violation { signature: sig, message: msg, case: f.to_json("C13") };
    for (i, s) in rep.steps.iter().enumerate() {
        match &s.result {
            StepResult::Panic(p) => {
                let kind = if is_hook_panic(p) { "ub" } else { "panic" };
                return Err(fail(
                    format!("C13:{kind}:{}", edge_name(s.edge).split(' ').next().unwrap_or("")),
                    format!("step {i} {:?} panicked on a supported config: {p}; cfg {}; history {}", s.edge, cfg_only_json(&f.cfg), steps_json(&rep.steps)),
                ));
            }
            StepResult::Err(e) => {
                return Err(fail(
                    "C13:error-on-supported-config".into(),
                    format!("step {i} {:?} returned {e:?} although every field of the config is supported; cfg {}", s.edge, cfg_only_json(&f.cfg)),
                ));
            }
            StepResult::Ok(_) => {}
        }
    }
    for (i, img) in rep.images.iter().enumerate().skip(1) {
        if let Err(m) = yuv_valid(img) {
            return Err(fail("C13:invalid-code".into(), format!("image produced by step {} ({:?}): {m}; cfg {}", i - 1, rep.steps[i - 1].edge, cfg_only_json(&f.cfg))));
        }
        if matches!(img.kind(), Kind::Yuv8 | Kind::Yuv16) {
            st.class("yuv_images_validated", 1);
        }
    }
    if in_unit {
        // finite inputs in [0,1]^3 always produce finite outputs (first conversion)
        if let Some(img) = rep.images.get(1) {
            if !all_finite(img) {
                return Err(fail("C13:non-finite-output".into(), format!("{:?} of finite in-range data produced a non-finite value; cfg {}", rep.steps[0].edge, cfg_only_json(&f.cfg))));
            }
        }
        for img in rep.images.iter().skip(2) {
            if !all_finite(img) {
                st.class("later_step_non_finite_after_in_range_start_not_judged", 1);
            }
        }
        st.class("in_range_start", 1);
    }
    let special = px.iter().any(|p| p.iter().any(|x| !x.is_finite() || x.abs() > 1e30 || (*x != 0.0 && x.abs() < f32::MIN_POSITIVE)));
    if special {
        st.class("start_with_nan_inf_huge_or_subnormal", 1);
    }
    st.class(&format!("start_{}", kind_name(f.kind)), 1);
    st.class("steps", rep.steps.len() as u64);
    st.comparisons += rep.steps.len() as u64;
    if special || px.iter().any(|p| p.iter().any(|x| *x < 0.0 || *x > 1.0)) {
        if !cfg!(miri) {
            st.nontrivial(&f.to_json("C13").to_string());
        }
    }
    st.sample(|| {
        let mut j = f.to_json("C13");
        if let Some(a) = j.get_mut("pixels").and_then(|a| a.as_array_mut()) {
            a.truncate(3);
        }
        j
    });
    Ok(())
}

/// single-component sweep of all f32 bit patterns through (&Rgb,cfg)->Yuv at depths 8, 10, 16
fn encode_sweep(ctx: &Ctx, st: &mut Stats) -> Vec<Violation> {
    let stride: u64 = ctx.pick(1021, 1);
    let off = if stride > 1 { ctx.seed % stride } else { 0 };
    let count = ((1u64 << 32) - off + stride - 1) / stride;
    let block = 1u64 << 16;
    let nblocks = (count + block - 1) / block;
    let mut jobs: Vec<(YuvConfig, bool)> = Vec::new();
    for (d, u8s) in [(8u8, true), (10, false), (16, false)] {
        for full in [false, true] {
            jobs.push((cfg(STD_MC[(d as usize) % 7], TC::BT1886, CP::BT709, d, full, (0, 0)), u8s));
        }
    }
    let out = par_sweep(ctx, st, jobs.len() as u64 * nblocks, |lo, hi, st| {
        for idx in lo..hi {
            let (c, u8s) = jobs[(idx / nblocks) as usize];
            let b = idx % nblocks;
            let comp = (b % 3) as usize;
            let px: Vec<[f32; 3]> = (b * block..((b + 1) * block).min(count))
                .map(|i| {
                    let mut p = [0.25f32, 0.5, 0.75];
                    p[comp] = f32::from_bits((off + i * stride) as u32);
                    p
                })
                .collect();
            let n = px.len();
            journal(|| json!({"prop":"C13","part":"sweep","cfg":cfg_only_json(&c),"u8":u8s,"from_bits":off + b * block * stride,"stride":stride,"n":n,"component":comp}));
            let res = catch(|| {
                let rgb = Rgb::new(px.clone(), n, 1, TC::BT1886, CP::BT709).unwrap();
                if u8s {
                    Yuv::<u8>::try_from((&rgb, c)).map(Img::Yuv8)
                } else {
                    Yuv::<u16>::try_from((&rgb, c)).map(Img::Yuv16)
                }
            });
            let bad = |msg: String| Violation {
                signature: "C13:encode-sweep".into(),
                message: msg,
                case: json!({"prop":"C13","part":"sweep","cfg":cfg_only_json(&c),"u8":u8s,"from_bits":off + b * block * stride,"stride":stride,"n":n,"component":comp}),
            };
            match res {
                Err(p) => return Some(bad(format!("(&Rgb,cfg)->Yuv panicked: {p}"))),
                Ok(Err(e)) => return Some(bad(format!("(&Rgb,cfg)->Yuv failed on a supported config: {e:?}"))),
                Ok(Ok(img)) => {
                    if let Err(m) = yuv_valid(&img) {
                        return Some(bad(m));
                    }
                }
            }
            st.evaluations += 1;
            st.comparisons += n as u64;
            st.nontrivial_by_construction += 1;
            st.class("encode_sweep_blocks", 1);
        }
        None
    });
    if stride == 1 {
        st.exhaustive_parts.push("all 2^32 f32 bit patterns in one component through (&Rgb,cfg)->Yuv at depths 8 (u8), 10, 16 x 2 ranges".into());
    }
    out
}

pub fn run(ctx: &Ctx, st: &mut Stats) -> Vec<Violation> {
    let scale = if cfg!(debug_assertions) { 3 } else { 1 };
    let mut v = run_proptest(ctx, st, "float-histories", ctx.cases(120_000, 1_500_000) / scale, float_strategy, check);
    if !v.is_empty() {
        return v;
    }
    v.extend(encode_sweep(ctx, st));
    v
}

/// deterministic edge cases for the Miri engine: cube corners / half levels / values just above 1
/// through every encoder entry at depths 8 and 16, both ranges, YCgCo and BT.709
pub fn edge_corpus(prop: &str) -> Vec<Value> {
    let mut out = Vec::new();
    let mut px: Vec<[f32; 3]> = Vec::new();
    for r in [0.0f32, 1.0] {
        for g in [0.0f32, 1.0] {
            for b in [0.0f32, 1.0] {
                px.push([r, g, b]);
            }
        }
    }
    px.extend([[0.5, 0.5, 0.5], [1.000_01, 1.000_01, 1.000_01], [1.095_88, 1.095_88, 1.095_88], [f32::NAN, 0.5, 0.5], [f32::INFINITY, 0.0, f32::NEG_INFINITY], [0.5, 0.5, 1.5]]);
    let n = px.len();
    for (ki, kind) in [Kind::Rgb, Kind::Lin].into_iter().enumerate() {
        for m in [yuvxyb::MatrixCoefficients::YCgCo, yuvxyb::MatrixCoefficients::BT709] {
            for depth in [8u8, 16] {
                for full in [false, true] {
                    let c = cfg(m, TC::BT1886, CP::BT709, depth, full, (0, 0));
                    // op indices: Rgb -> [.., RgbToYuv by_ref u8 (2), by_ref u16 (3), ..]; Lin -> [.., LinToYuv u8 (3), u16 (4)]
                    let op = if ki == 0 { if depth == 8 { 2u8 } else { 3 } } else if depth == 8 { 3 } else { 4 };
                    let f = FloatCase { kind, w: n, h: 1, cfg: c, data: Data::Explicit(px.clone()), ops: vec![op] };
                    out.push(f.to_json(prop));
                }
            }
        }
    }
    out
}

/// cases for the Miri engine (small float histories, special values emphasised)
pub fn corpus(seed: u64, n: usize) -> Vec<Value> {
    let strat = float_strategy();
    let mut out = edge_corpus("C13");
    let mut round = 0u64;
    while out.len() < n && round < 64 {
        for f in sample_strategy(&strat, mix64(seed ^ round ^ 0x13), n) {
            if f.w * f.h <= 8 && out.len() < n {
                out.push(f.to_json("C13"));
            }
        }
        round += 1;
    }
    out
}

pub fn replay(v: &Value) -> Result<(), String> {
    if v.get("part").and_then(|p| p.as_str()) == Some("sweep") {
        let c = cfg_parse(v.get("cfg").ok_or("cfg")?).ok_or("cfg")?;
        let from = v.get("from_bits").and_then(|x| x.as_u64()).ok_or("from_bits")?;
        let stride = v.get("stride").and_then(|x| x.as_u64()).unwrap_or(1);
        let n = v.get("n").and_then(|x| x.as_u64()).unwrap_or(0);
        let comp = v.get("component").and_then(|x| x.as_u64()).unwrap_or(0) as usize;
        let u8s = v.get("u8").and_then(|x| x.as_bool()).unwrap_or(false);
        let px: Vec<[f32; 3]> = (0..n)
            .map(|i| {
                let mut p = [0.25f32, 0.5, 0.75];
                p[comp] = f32::from_bits((from + i * stride) as u32);
                p
            })
            .collect();
        let res = catch(|| {
            let rgb = Rgb::new(px.clone(), px.len(), 1, TC::BT1886, CP::BT709).unwrap();
            if u8s {
                Yuv::<u8>::try_from((&rgb, c)).map(Img::Yuv8)
            } else {
                Yuv::<u16>::try_from((&rgb, c)).map(Img::Yuv16)
            }
        });
        return match res {
            Err(p) => Err(p),
            Ok(Err(e)) => Err(format!("{e:?}")),
            Ok(Ok(img)) => yuv_valid(&img),
        };
    }
    let f = FloatCase::from_json(v).ok_or("bad case")?;
    check(&f, &mut Stats::new()).map_err(|v| v.message)
}

pub const RULE: &str = "cases = float histories generated by proptest: a float image (Rgb, LinearRgb, Xyb or Hsl; size a multiple of the subsampling, 1..4 x 1..3 blocks) whose data comes from 6 strata (special values: q/sNaN of both signs, +-inf, +-3e38, +-MAX, +-MIN_POSITIVE, subnormals, +-0, 2^31, 2^63 mixed with random bit patterns; in-range; arbitrary bit patterns; moderately out of range; huge magnitudes; one special value in an in-range image) pushed through 1..4 conversions chosen over the whole conversion graph, with a supported config (7 standard matrices x 14 curves x 11 primaries x depth 8..16 x 2 ranges x 6 subsamplings, u8 and u16 outputs); plus a strided (quick) / complete (thorough) sweep of all f32 bit patterns in one component through (&Rgb,cfg)->Yuv. Oracle: no panic of any kind and no error, every produced Yuv has all samples <= 2^n-1 and is re-accepted by Yuv::new, a start image that is finite and inside [0,1]^3 gives a finite first output; runs in the optimised and in the overflow/debug-checked profile under a supervising parent process; non-trivial = start image containing a value outside [0,1] (incl. NaN/inf/huge/subnormal); distinct = by hash of the history";
