//! Call histories over the conversion graph, shared by C07 (no UB) and C13 (totality).

use crate::api::{cfg, cfg_from_json, cfg_json};
use crate::conv::*;
use crate::engine::*;
use crate::gen::{pick_from, std_matrix, sup_primaries, sup_transfer, SUBSAMPLINGS};
use proptest::prelude::*;
use serde_json::{json, Value};
use yuvxyb::{ConversionError, Frame, Pixel, Yuv, YuvConfig};

pub const SPECIAL_F32: [u32; 22] = [
    0x7FC0_0000, // qNaN
    0xFFC0_0000, // -qNaN
    0x7FA0_0000, // sNaN
    0xFFA0_0001, // -sNaN
    0x7F80_0000, // +inf
    0xFF80_0000, // -inf
    0x7E61_B1E6, // 3e38
    0xFE61_B1E6, // -3e38
    0x7F7F_FFFF, // MAX
    0xFF7F_FFFF, // -MAX
    0x0080_0000, // MIN_POSITIVE
    0x8080_0000,
    0x0000_0001, // subnormal
    0x8000_0001,
    0x007F_FFFF,
    0x0000_0000,
    0x8000_0000, // -0
    0x3F80_0000, // 1
    0xBF80_0000, // -1
    0x3F00_0000, // 0.5
    0x4F00_0000, // 2^31
    0x5F00_0000, // 2^63
];

#[derive(Debug, Clone)]
pub struct FloatCase {
    pub kind: Kind,
    pub w: usize,
    pub h: usize,
    pub cfg: YuvConfig,
    pub data: Data,
    /// choices of the next edge (index into the applicable edges, modulo their number)
    pub ops: Vec<u8>,
}
#[derive(Debug, Clone)]
pub enum Data {
    Seeded { stratum: u8, seed: u64 },
    Explicit(Vec<[f32; 3]>),
}

/// strata: 0 special values mixed with random bit patterns; 1 finite in [0,1]^3; 2 arbitrary bit
/// patterns; 3 moderately out of range [-2,3]; 4 huge magnitudes; 5 one special value in an
/// otherwise in-range image; 6 cube corners and half levels (exact 0, 0.5, 1 per component: pure colours
/// put luma/chroma exactly on the ends of their ranges)
pub fn expand_floats(stratum: u8, seed: u64, n: usize) -> Vec<[f32; 3]> {
    let mut e = Expand(seed);
    let mut out = Vec::with_capacity(n);
    let special_at = e.below(n.max(1) as u64 * 3);
    for i in 0..n {
        let mut p = [0f32; 3];
        for (j, c) in p.iter_mut().enumerate() {
            *c = match stratum % 7 {
                6 => *e.pick(&[0.0f32, 1.0, 0.5, 0.0, 1.0]),
                0 => {
                    if e.below(2) == 0 {
                        f32::from_bits(*e.pick(&SPECIAL_F32))
                    } else {
                        f32::from_bits(e.next_u32())
                    }
                }
                1 => e.unit() as f32,
                2 => f32::from_bits(e.next_u32()),
                3 => e.range_f64(-2.0, 3.0) as f32,
                4 => (10f64.powf(e.range_f64(30.0, 38.5)) * if e.below(2) == 0 { 1.0 } else { -1.0 }) as f32,
                _ => {
                    if (i * 3 + j) as u64 == special_at {
                        f32::from_bits(*e.pick(&SPECIAL_F32))
                    } else {
                        e.unit() as f32
                    }
                }
            };
        }
        out.push(p);
    }
    out
}

impl FloatCase {
    pub fn pixels(&self) -> Vec<[f32; 3]> {
        match &self.data {
            Data::Seeded { stratum, seed } => expand_floats(*stratum, *seed, self.w * self.h),
            Data::Explicit(v) => v.clone(),
        }
    }
    pub fn to_json(&self, prop: &str) -> Value {
        if self.w * self.h > 4096 {
            if let Data::Seeded { stratum, seed } = &self.data {
                return json!({"prop": prop, "part": "float", "kind": kind_name(self.kind), "w": self.w, "h": self.h, "cfg": cfg_json(&self.cfg),
                    "ops": self.ops, "seeded": {"stratum": stratum, "seed": seed.to_string()}});
            }
        }
        let px = self.pixels();
        let mut j = float_case_json(self.kind, &px, self.w, self.h, &self.cfg);
        j["prop"] = json!(prop);
        j["part"] = json!("float");
        j["ops"] = json!(self.ops);
        j
    }
    pub fn from_json(v: &Value) -> Option<FloatCase> {
        if let Some(sd) = v.get("seeded") {
            return Some(FloatCase {
                kind: kind_from_name(v.get("kind")?.as_str()?)?,
                w: v.get("w")?.as_u64()? as usize,
                h: v.get("h")?.as_u64()? as usize,
                cfg: cfg_from_json(v.get("cfg")?)?,
                data: Data::Seeded { stratum: sd.get("stratum")?.as_u64()? as u8, seed: sd.get("seed")?.as_str()?.parse().ok()? },
                ops: serde_json::from_value(v.get("ops")?.clone()).ok()?,
            });
        }
        let (kind, px, w, h, cfg) = float_case_from_json(v)?;
        let ops: Vec<u8> = serde_json::from_value(v.get("ops")?.clone()).ok()?;
        Some(FloatCase { kind, w, h, cfg, data: Data::Explicit(px), ops })
    }
}

pub fn supported_cfg() -> BoxedStrategy<YuvConfig> {
    (prop_oneof![5 => std_matrix(), 1 => pick_from(&super::c11::WORKING_MC[7..])], sup_transfer(), sup_primaries(), prop_oneof![Just(8u8), Just(10u8), Just(16u8), 9u8..=16], any::<bool>(), pick_from(&SUBSAMPLINGS), 0u8..48)
        .prop_map(|(m, t, mut p, d, full, ss, unspec)| {
            // (one config in six uses a matrix derived from the primaries; the XYZ encoding has none to derive)
            if !crate::oracle::STD_MC.contains(&m) && p == yuvxyb::ColorPrimaries::ST428 {
                p = yuvxyb::ColorPrimaries::BT709;
            }
            // one config in six leaves primaries and/or transfer Unspecified: the library resolves them to supported
            // values (C15), so these are supported configurations too, and the guessing code runs. (The matrix stays
            // specified: RGB->YUV reports UnspecifiedMatrixCoefficients by design, which C15 counts and does not judge.)
            let mut c = cfg(m, t, p, d, full, ss);
            if unspec < 8 {
                let u = if unspec & 6 == 0 { 2 } else { unspec };
                // (a matrix derived from the primaries needs them: UnspecifiedColorPrimaries by design)
                if u & 2 != 0 && crate::oracle::STD_MC.contains(&m) {
                    c.color_primaries = yuvxyb::ColorPrimaries::Unspecified;
                }
                if u & 4 != 0 {
                    c.transfer_characteristics = yuvxyb::TransferCharacteristic::Unspecified;
                }
            }
            c
        })
        .boxed()
}

pub fn float_kind() -> impl Strategy<Value = Kind> {
    prop_oneof![Just(Kind::Rgb), Just(Kind::Lin), Just(Kind::Xyb), Just(Kind::Hsl)]
}

/// float histories on supported configs; image size is a multiple of the subsampling factors
pub fn float_strategy() -> BoxedStrategy<FloatCase> {
    (supported_cfg(), float_kind(), 1usize..=4, 1usize..=3, 0u8..7, any::<u64>(), prop::collection::vec(any::<u8>(), 1..=6))
        .prop_map(|(cfg, kind, bw, bh, stratum, seed, ops)| {
            // now and then a real-size image: rows wider than 2^15 / 2^16, pixel counts above 2^16
            let (bw, bh) = match seed % 400 {
                0 => (32_770usize.div_ceil(1 << cfg.subsampling_x), 1usize),
                1 => (65_540usize.div_ceil(1 << cfg.subsampling_x), 1),
                2 => (257, 255),
                3 => (40_002usize.div_ceil(1 << cfg.subsampling_x), 2),
                _ => (bw, bh),
            };
            FloatCase { kind, w: bw << cfg.subsampling_x, h: bh << cfg.subsampling_y, cfg, data: Data::Seeded { stratum, seed }, ops: if seed % 400 < 4 { ops.into_iter().take(2).collect() } else { ops } }
        })
        .boxed()
}

#[derive(Debug, Clone)]
pub enum StepResult {
    Ok(Kind),
    Err(ConversionError),
    Panic(String),
}
#[derive(Debug, Clone)]
pub struct Step {
    pub edge: Edge,
    pub result: StepResult,
}

pub struct HistoryReport {
    pub steps: Vec<Step>,
    /// every image produced, in order (the start image first)
    pub images: Vec<Img>,
}

/// interpret the history: each op picks one applicable edge of the current image
pub fn run_history(start: Img, cfgp: &YuvConfig, ops: &[u8]) -> HistoryReport {
    let mut images = vec![start.clone()];
    let mut steps = Vec::new();
    // the current image is handed to the library as the very object it produced / we built (its
    // allocation, spare capacity and hidden state included); `images` keeps copies for the oracles
    let mut cur = Some(start);
    for (step, op) in ops.iter().enumerate() {
        let mut c = cur.take().unwrap();
        if *op >= 216 && step > 0 {
            // paint: overwrite the current float image through data_mut() with special-laden data and go on;
            // whatever the object remembers about how it was produced must not matter
            let n = c.dims().0 * c.dims().1;
            let data = expand_floats((*op % 6) as u8, 0xFA17 ^ ((*op as u64) << 8) ^ step as u64, n);
            let painted = match &mut c {
                Img::Rgb(r) => { r.data_mut().copy_from_slice(&data); true }
                Img::Lin(r) => { r.data_mut().copy_from_slice(&data); true }
                Img::Xyb(r) => { r.data_mut().copy_from_slice(&data); true }
                Img::Hsl(r) => { r.data_mut().copy_from_slice(&data); true }
                _ => false,
            };
            if painted {
                cur = Some(c);
                continue;
            }
        }
        let edges = edges_from(c.kind());
        let e = edges[*op as usize % edges.len()];
        let p = Params { cfg: *cfgp };
        // a borrowing conversion leaves its source alive: for half of them the history goes on with the *source* object
        // (which may then be painted through data_mut() and converted again - whatever it cached about its contents
        // must not survive that), the result is still recorded and judged
        let borrows = matches!(e, Edge::YuvToRgb { by_ref: true } | Edge::YuvToLin { by_ref: true } | Edge::YuvToXyb { by_ref: true } | Edge::RgbToYuv { by_ref: true, .. });
        if borrows && (*op / 16) % 2 == 1 {
            match catch(|| apply(e, &c, &p)) {
                Ok(Ok(img)) => {
                    steps.push(Step { edge: e, result: StepResult::Ok(img.kind()) });
                    images.push(img);
                    cur = Some(c);
                }
                Ok(Err(err)) => {
                    steps.push(Step { edge: e, result: StepResult::Err(err) });
                    break;
                }
                Err(pn) => {
                    steps.push(Step { edge: e, result: StepResult::Panic(pn) });
                    break;
                }
            }
            continue;
        }
        match catch(move || apply_owned(e, c, &p)) {
            Ok(Ok(img)) => {
                steps.push(Step { edge: e, result: StepResult::Ok(img.kind()) });
                images.push(img.clone());
                cur = Some(img);
            }
            Ok(Err(err)) => {
                steps.push(Step { edge: e, result: StepResult::Err(err) });
                break;
            }
            Err(p) => {
                steps.push(Step { edge: e, result: StepResult::Panic(p) });
                break;
            }
        }
    }
    HistoryReport { steps, images }
}

pub fn frame_of<T: Pixel>(y: &Yuv<T>) -> Frame<T> {
    let d = y.data();
    Frame { planes: [d[0].clone(), d[1].clone(), d[2].clone()] }
}

/// every sample <= 2^n-1 and the constructor re-accepts the image
pub fn yuv_valid(img: &Img) -> Result<(), String> {
    fn one<T: Pixel>(y: &Yuv<T>) -> Result<(), String> {
        let max = if y.config().bit_depth >= 16 { 65535u32 } else { (1u32 << y.config().bit_depth) - 1 };
        for (pi, (_, _, samples)) in yuv_samples(y).iter().enumerate() {
            if let Some(s) = samples.iter().find(|s| **s as u32 > max) {
                return Err(format!("plane {pi} contains code {s} > {max}"));
            }
        }
        match catch(|| Yuv::<T>::new(frame_of(y), y.config())) {
            Ok(Ok(_)) => Ok(()),
            Ok(Err(e)) => Err(format!("the constructor rejects the produced image: {e:?}")),
            Err(p) => Err(format!("the constructor panics on the produced image: {p}")),
        }
    }
    match img {
        Img::Yuv8(y) => one(y),
        Img::Yuv16(y) => one(y),
        _ => Ok(()),
    }
}

pub fn all_finite(img: &Img) -> bool {
    img.float_data().map(|d| d.iter().all(|p| p.iter().all(|x| x.is_finite()))).unwrap_or(true)
}

pub fn steps_json(steps: &[Step]) -> Value {
    json!(steps.iter().map(|s| format!("{:?} -> {:?}", s.edge, s.result)).collect::<Vec<_>>())
}

pub fn cfg_only_json(c: &YuvConfig) -> Value {
    cfg_json(c)
}
pub fn cfg_parse(v: &Value) -> Option<YuvConfig> {
    cfg_from_json(v)
}
