//! C02 RGB->YUV encoding rounds to the nearest code of the H.273 quantisation.

use crate::api::{cfg, cfg_from_json, cfg_json, codes444};
use crate::engine::*;
use crate::gen::{depth_storage, std_matrix};
use crate::oracle::{self, mc_name, STD_MC};
use proptest::prelude::*;
use serde_json::{json, Value};
use yuvxyb::{ColorPrimaries as CP, Pixel, Rgb, TransferCharacteristic as TC, Yuv, YuvConfig};

#[derive(Debug, Clone)]
pub struct Case {
    pub cfg: YuvConfig,
    pub u8_storage: bool,
    pub by_value: bool,
    pub w: usize,
    pub h: usize,
    pub px: Px,
}
#[derive(Debug, Clone)]
pub enum Px {
    Seeded { stratum: u8, seed: u64 },
    Explicit(Vec<[f32; 3]>),
}

/// strata: 0 uniform [-0.5,1.5]^3; 1 in-gamut [0,1]^3; 2 lattice {-0.5,0,0.5,1,1.5}^3;
/// 3 near-tie (ideal code has fractional part 0.5 +- d); 4 clamp ends; 5 full-range chroma -0.5;
/// 6 near-achromatic (a grey level plus per-component perturbations of scale 1e-7..1e-3);
/// 7 chroma zero-crossings: black, then colours whose Cb or Cr is zero, the controlling component scanned
/// over the 9 adjacent floats around the exact zero
pub fn expand(c: &YuvConfig, stratum: u8, seed: u64, n: usize) -> Vec<[f32; 3]> {
    let mut e = Expand(seed);
    let mut out = Vec::with_capacity(n);
    let nb = c.bit_depth as u32;
    let max = ((1u64 << nb) - 1) as f64;
    let k = (1u64 << (nb - 8)) as f64;
    let m = c.matrix_coefficients;
    let in_dom = |p: &[f32; 3]| p.iter().all(|x| x.is_finite() && *x >= -0.5 && *x <= 1.5);
    if stratum % 8 == 7 {
        // [black, candidate] pairs; candidates = oracle-decoded (y, cb, cr) with cb == 0 or cr == 0, the
        // component that controls that chroma value nudged by -4..4 ulp
        while out.len() < n {
            let y = e.range_f64(0.05, 0.95);
            let zero_cb = e.below(2) == 0;
            let c = e.range_f64(-0.3, 0.3);
            let rgb = if zero_cb { oracle::decode_ypbpr(m, y, 0.0, c) } else { oracle::decode_ypbpr(m, y, c, 0.0) };
            let ctl = if m == yuvxyb::MatrixCoefficients::YCgCo { 1 } else if zero_cb { 2 } else { 0 };
            for d in -4i32..=4 {
                let mut p = [rgb[0] as f32, rgb[1] as f32, rgb[2] as f32];
                p[ctl] = f32::from_bits((p[ctl].to_bits() as i64 + d as i64).max(0) as u32);
                out.push([0.0, 0.0, 0.0]);
                out.push([p[0].clamp(-0.5, 1.5), p[1].clamp(-0.5, 1.5), p[2].clamp(-0.5, 1.5)]);
            }
        }
        out.truncate(n);
        return out;
    }
    for _ in 0..n {
        let p: [f32; 3] = match stratum % 8 {
            6 => {
                let g = e.range_f64(-0.1, 1.1);
                let sc = 10f64.powf(e.range_f64(-7.0, -3.0));
                [(g + sc * (2.0 * e.unit() - 1.0)) as f32, (g + sc * (2.0 * e.unit() - 1.0)) as f32, (g + sc * (2.0 * e.unit() - 1.0)) as f32]
            }
            0 => [e.range_f64(-0.5, 1.5) as f32, e.range_f64(-0.5, 1.5) as f32, e.range_f64(-0.5, 1.5) as f32],
            1 => [e.unit() as f32, e.unit() as f32, e.unit() as f32],
            2 => {
                let l = [-0.5f32, 0.0, 0.5, 1.0, 1.5];
                [*e.pick(&l), *e.pick(&l), *e.pick(&l)]
            }
            3 => {
                // target real-valued codes with fractional part 0.5 +- d on a random subset of planes
                let mut t = [0.0f64; 3];
                for (i, tt) in t.iter_mut().enumerate() {
                    let (lo, hi) = if c.full_range { (0.0, max) } else if i == 0 { (16.0 * k, 235.0 * k) } else { (16.0 * k, 240.0 * k) };
                    let base = (lo + (hi - lo - 1.0) * e.unit()).floor();
                    let d = 10f64.powf(e.range_f64(-7.0, -2.0)) * if e.below(2) == 0 { 1.0 } else { -1.0 };
                    *tt = if e.below(4) == 0 { base + e.unit() } else { base + 0.5 + d };
                }
                let y = if c.full_range { t[0] / max } else { (t[0] - 16.0 * k) / (219.0 * k) };
                let half = (1u64 << (nb - 1)) as f64;
                let cb = if c.full_range { (t[1] - half) / max } else { (t[1] - 128.0 * k) / (224.0 * k) };
                let cr = if c.full_range { (t[2] - half) / max } else { (t[2] - 128.0 * k) / (224.0 * k) };
                let rgb = oracle::decode_ypbpr(m, y, cb, cr);
                [rgb[0] as f32, rgb[1] as f32, rgb[2] as f32]
            }
            4 => {
                // luma near 0 / 1 and chroma near +-0.5: ends of the clamp
                let y = if e.below(2) == 0 { e.range_f64(-0.02, 0.02) } else { e.range_f64(0.98, 1.02) };
                let cb = *e.pick(&[-0.5, 0.5, 0.0]) + e.range_f64(-0.01, 0.01);
                let cr = *e.pick(&[-0.5, 0.5, 0.0]) + e.range_f64(-0.01, 0.01);
                let rgb = oracle::decode_ypbpr(m, y, cb, cr);
                [rgb[0] as f32, rgb[1] as f32, rgb[2] as f32]
            }
            _ => {
                // chroma exactly (or within a few ulp of) -0.5 on one or both planes
                let y = e.unit();
                let j = e.below(5) as f64 - 2.0;
                let cb = if e.below(3) != 0 { -0.5 + j * 6e-8 } else { e.range_f64(-0.5, 0.5) };
                let cr = if e.below(3) != 0 { -0.5 + j * 6e-8 } else { e.range_f64(-0.5, 0.5) };
                let rgb = oracle::decode_ypbpr(m, y, cb, cr);
                [rgb[0] as f32, rgb[1] as f32, rgb[2] as f32]
            }
        };
        // soundness: the property quantifies over components in [-0.5,1.5] only
        if in_dom(&p) {
            out.push(p);
        } else {
            out.push([p[0].clamp(-0.5, 1.5), p[1].clamp(-0.5, 1.5), p[2].clamp(-0.5, 1.5)]);
        }
    }
    out
}

impl Case {
    pub fn pixels(&self) -> Vec<[f32; 3]> {
        match &self.px {
            Px::Seeded { stratum, seed } => {
                let mut px = expand(&self.cfg, *stratum, *seed, self.w * self.h);
                if seed % 3 == 0 && stratum % 8 != 7 {
                    let dom = |p: [f32; 3]| -> bool { p.iter().all(|x| x.is_finite() && *x >= -0.5 && *x <= 1.5) };
                    correlate_px(&mut px, *seed, None, &dom);
                }
                px
            }
            Px::Explicit(v) => v.clone(),
        }
    }
    fn json_with(&self, px: &[[f32; 3]], w: usize, h: usize) -> Value {
        if px.len() > 4096 {
            if let Px::Seeded { stratum, seed } = &self.px {
                return json!({"prop":"C02","cfg":cfg_json(&self.cfg),"storage": if self.u8_storage {"u8"} else {"u16"},
                    "by_value": self.by_value, "w": w, "h": h, "seeded": {"stratum": stratum, "seed": seed.to_string()}});
            }
        }
        json!({"prop":"C02","cfg":cfg_json(&self.cfg),"storage": if self.u8_storage {"u8"} else {"u16"},
               "by_value": self.by_value, "w": w, "h": h, "pixels": px.iter().map(|p| px2j(*p)).collect::<Vec<_>>()})
    }
}

pub fn strategy() -> BoxedStrategy<Case> {
    (
        std_matrix(),
        any::<bool>(),
        depth_storage(),
        any::<bool>(),
        0u8..8,
        any::<u64>(),
        1usize..=32,
        1usize..=8,
        crate::gen::sup_transfer(),
        crate::gen::sup_primaries(),
    )
        .prop_map(|(mc, full, (depth, u8s), by_value, stratum, seed, w, h, tc, cp)| Case {
            cfg: cfg(mc, tc, cp, depth, full, (0, 0)),
            u8_storage: u8s,
            by_value,
            w,
            h,
            px: Px::Seeded { stratum, seed },
        })
        .boxed()
}

fn encode<T: Pixel>(c: &YuvConfig, px: &[[f32; 3]], w: usize, h: usize, by_value: bool) -> Result<(Vec<[u16; 3]>, usize, usize, YuvConfig), String> {
    // the Rgb object is produced either directly or by painting over an in-gamut grey canvas through
    // data_mut(): the encoding is a function of the pixel data only
    let paint = px.len() > 1 && (px[0][0].to_bits() ^ px[px.len() - 1][2].to_bits()) % 3 == 0;
    let rgb = if paint {
        let mut r = Rgb::new(vec![[0.5f32; 3]; px.len()], w, h, c.transfer_characteristics, c.color_primaries).map_err(|e| format!("Rgb::new: {e:?}"))?;
        r.data_mut().copy_from_slice(px);
        r
    } else {
        Rgb::new(px.to_vec(), w, h, c.transfer_characteristics, c.color_primaries).map_err(|e| format!("Rgb::new: {e:?}"))?
    };
    let r = if by_value { Yuv::<T>::try_from((rgb, *c)) } else { Yuv::<T>::try_from((&rgb, *c)) };
    let yuv = r.map_err(|e| format!("encode failed: {e:?}"))?;
    Ok((codes444(&yuv), yuv.width(), yuv.height(), yuv.config()))
}

pub fn ideal(c: &YuvConfig, p: [f32; 3]) -> [f64; 3] {
    let n = c.bit_depth as u32;
    let y = oracle::encode_ypbpr(c.matrix_coefficients, [p[0] as f64, p[1] as f64, p[2] as f64]);
    [
        oracle::ideal_luma_code(y[0], n, c.full_range),
        oracle::ideal_chroma_code(y[1], n, c.full_range),
        oracle::ideal_chroma_code(y[2], n, c.full_range),
    ]
}

pub fn check(case: &Case, st: &mut Stats) -> Result<(), Violation> {
    let px = case.pixels();
    let c = &case.cfg;
    let sig = format!(
        "C02:encode:{}:{}:{}",
        mc_name(c.matrix_coefficients),
        if c.full_range { "full" } else { "limited" },
        if case.u8_storage { "u8" } else { "u16" }
    );
    let fail = |msg: String, p: &[[f32; 3]], w: usize, h: usize| Violation { signature: sig.clone(), message: msg, case: case.json_with(p, w, h) };
    // for a third of the images the previous call on this thread encodes a permutation of the same pixels (result ignored)
    if let Some(k) = prior_perm_kind(px.iter().flat_map(|p| p.iter().map(|c| c.to_bits())), px.len()) {
        let q = permuted(&px, k, case.w);
        let _ = catch(|| if case.u8_storage { encode::<u8>(c, &q, case.w, case.h, case.by_value).map(|_| ()) } else { encode::<u16>(c, &q, case.w, case.h, case.by_value).map(|_| ()) });
        st.class("preceded_by_a_permutation_of_the_same_image", 1);
    }
    let res = catch(|| {
        if case.u8_storage {
            encode::<u8>(c, &px, case.w, case.h, case.by_value)
        } else {
            encode::<u16>(c, &px, case.w, case.h, case.by_value)
        }
    });
    let (codes, w, h, outcfg) = match res {
        Err(p) => return Err(fail(format!("panic: {p}"), &px, case.w, case.h)),
        Ok(Err(e)) => return Err(fail(e, &px, case.w, case.h)),
        Ok(Ok(r)) => r,
    };
    st.evaluations += 1;
    if w != case.w || h != case.h || codes.len() != px.len() {
        return Err(fail(format!("dimensions changed: {w}x{h}"), &px, case.w, case.h));
    }
    if outcfg != *c {
        return Err(fail(format!("config changed: requested {:?} got {:?}", cfg_json(c), cfg_json(&outcfg)), &px[..1], 1, 1));
    }
    let tol = 0.5 + 1e-6 * (1u64 << c.bit_depth) as f64;
    let max = ((1u64 << c.bit_depth) - 1) as f64;
    let mut nontrivial = false;
    for (i, p) in px.iter().enumerate() {
        let want = ideal(c, *p);
        for j in 0..3 {
            let d = (codes[i][j] as f64 - want[j]).abs();
            if !(d <= tol) {
                let bad = |q: [f32; 3]| -> bool {
                    let r = if case.u8_storage { encode::<u8>(c, &[q], 1, 1, false) } else { encode::<u16>(c, &[q], 1, 1, false) };
                    match r {
                        Ok((cd, _, _, _)) => {
                            let w = ideal(c, q);
                            (0..3).any(|k| !((cd[0][k] as f64 - w[k]).abs() <= tol))
                        }
                        Err(_) => false,
                    }
                };
                if !bad(*p) {
                    return Err(fail(
                        format!("pixel #{i} {:?} plane {}: code {} but ideal {:.6} only inside this {}x{} image (the pixel alone encodes correctly; the Rgb object was {}); cfg {}", p, j, codes[i][j], want[j], case.w, case.h, "possibly painted through data_mut()", cfg_json(c)),
                        &px,
                        case.w,
                        case.h,
                    ));
                }
                let small = minimize_px(*p, -0.5, 1.5, bad);
                if small != *p {
                    return Err(fail(
                        format!("pixel {:?} (shrunk from {:?}) plane {}: ideal codes {:?}, encoder is off by more than {:.6}; cfg {}", small, p, j, ideal(c, small), tol, cfg_json(c)),
                        &[small],
                        1,
                        1,
                    ));
                }
                return Err(fail(
                    format!(
                        "pixel {:?} plane {}: code {} but ideal {:.6} (|diff| {:.6} > {:.6}) cfg {}",
                        p, j, codes[i][j], want[j], d, tol, cfg_json(c)
                    ),
                    &[*p],
                    1,
                    1,
                ));
            }
            st.max("max_overshoot_over_half_relative_to_allowance", (d - 0.5) / (tol - 0.5));
            if want[j] > 0.0 && want[j] < max {
                nontrivial = true;
            } else {
                st.class("plane_clamped", 1);
            }
            let frac = (want[j] - want[j].floor() - 0.5).abs();
            if frac < 1e-3 {
                st.class("near_tie_lt_1e-3", 1);
            }
        }
        if p.iter().any(|x| *x < 0.0 || *x > 1.0) {
            st.class("out_of_gamut_source", 1);
        }
    }
    st.comparisons += px.len() as u64 * 3;
    st.class(&format!("matrix_{}", mc_name(c.matrix_coefficients)), 1);
    st.class(&format!("depth_{}", c.bit_depth), 1);
    st.class(if case.u8_storage { "storage_u8" } else { "storage_u16" }, 1);
    if nontrivial {
        let bits: Vec<[u32; 3]> = px.iter().map(|p| [p[0].to_bits(), p[1].to_bits(), p[2].to_bits()]).collect();
        st.nontrivial(&(mc_name(c.matrix_coefficients), c.full_range, c.bit_depth, case.u8_storage, bits));
    }
    st.sample(|| case.json_with(&px[..px.len().min(3)], px.len().min(3), 1));
    Ok(())
}

// ---------------------------------------------------------------- encode histories over subsampled configs
/// A short history of encodes on one thread: the same picture (4x4 blocks of constant colour, so that every chroma
/// sample has one ideal value under any subsampling) encoded with three or four configs that differ in depth,
/// subsampling, range or matrix. Every plane sample of every step is held against the H.273 ideal.
#[derive(Debug, Clone)]
pub struct EncHist {
    pub cfgs: Vec<YuvConfig>,
    pub bw: usize,
    pub bh: usize,
    pub seed: u64,
}
impl EncHist {
    fn to_json(&self) -> Value {
        json!({"prop":"C02","part":"enc-history","cfgs": self.cfgs.iter().map(cfg_json).collect::<Vec<_>>(),"bw":self.bw,"bh":self.bh,"seed":self.seed.to_string()})
    }
    fn from_json(v: &Value) -> Option<EncHist> {
        Some(EncHist {
            cfgs: v.get("cfgs")?.as_array()?.iter().filter_map(cfg_from_json).collect(),
            bw: v.get("bw")?.as_u64()? as usize,
            bh: v.get("bh")?.as_u64()? as usize,
            seed: v.get("seed")?.as_str()?.parse().ok()?,
        })
    }
}

pub fn enc_hist_strategy() -> BoxedStrategy<EncHist> {
    (std_matrix(), any::<bool>(), any::<u64>(), 1usize..=3, 1usize..=2, 3usize..=4)
        .prop_map(|(mc, full, seed, bw, bh, steps)| {
            let mut e = Expand(seed ^ 0xE7C);
            let depths = [8u8, 16, 10, 12, 9];
            let mut cfgs = Vec::new();
            let ss0 = *e.pick(&crate::gen::SUBSAMPLINGS);
            for i in 0..steps {
                let mut c = cfg(mc, TC::BT1886, CP::BT709, *e.pick(&depths), full, ss0);
                // each step changes one or two fields with respect to the first
                if i > 0 || e.below(2) == 0 {
                    match e.below(4) {
                        0 => {
                            let ss = *e.pick(&crate::gen::SUBSAMPLINGS);
                            c.subsampling_x = ss.0;
                            c.subsampling_y = ss.1;
                        }
                        1 => c.full_range = !full,
                        2 => c.matrix_coefficients = *e.pick(&STD_MC),
                        _ => {
                            c.subsampling_x = (ss0.0 + 1) % 3;
                        }
                    }
                }
                if (c.subsampling_x, c.subsampling_y) == (0, 2) || (c.subsampling_x, c.subsampling_y) == (1, 2) {
                    c.subsampling_y = 1;
                }
                cfgs.push(c);
            }
            EncHist { cfgs, bw, bh, seed }
        })
        .boxed()
}

pub fn check_enc_hist(hc: &EncHist, st: &mut Stats) -> Result<(), Violation> {
    let (w, h) = (hc.bw * 4, hc.bh * 4);
    let mut e = Expand(hc.seed);
    let cols: Vec<[f32; 3]> = (0..hc.bw * hc.bh).map(|_| [e.range_f64(-0.2, 1.2) as f32, e.range_f64(-0.2, 1.2) as f32, e.range_f64(-0.2, 1.2) as f32]).collect();
    let px: Vec<[f32; 3]> = (0..w * h).map(|i| cols[(i / w / 4) * hc.bw + (i % w) / 4]).collect();
    let fail = |sig: &str, msg: String| Violation { signature: format!("C02:enc-history:{sig}"), message: format!("{msg}; history {}", hc.to_json()), case: hc.to_json() };
    st.evaluations += 1;
    for (si, c) in hc.cfgs.iter().enumerate() {
        fn planes_of<T: Pixel>(c: &YuvConfig, px: &[[f32; 3]], w: usize, h: usize) -> Result<(Vec<(usize, usize, Vec<u16>)>, YuvConfig), String> {
            let rgb = Rgb::new(px.to_vec(), w, h, c.transfer_characteristics, c.color_primaries).map_err(|e| format!("{e:?}"))?;
            let y = Yuv::<T>::try_from((&rgb, *c)).map_err(|e| format!("encode failed: {e:?}"))?;
            Ok((crate::conv::yuv_samples(&y), y.config()))
        }
        let r = catch(|| if c.bit_depth == 8 && hc.seed % 2 == 0 { planes_of::<u8>(c, &px, w, h) } else { planes_of::<u16>(c, &px, w, h) });
        let (planes, outcfg) = match r {
            Err(p) => return Err(fail("panic", format!("step {si} panicked: {p}"))),
            Ok(Err(m)) => return Err(fail("error", format!("step {si}: {m}"))),
            Ok(Ok(x)) => x,
        };
        if outcfg != *c {
            return Err(fail("config", format!("step {si}: requested {} but the output carries {}", cfg_json(c), cfg_json(&outcfg))));
        }
        let tol = 0.5 + 1e-6 * (1u64 << c.bit_depth) as f64;
        let (ssx, ssy) = (c.subsampling_x as usize, c.subsampling_y as usize);
        for (pl, (pw, ph, samples)) in planes.iter().enumerate() {
            let (ew, eh) = if pl == 0 { (w, h) } else { (w >> ssx, h >> ssy) };
            if (*pw, *ph) != (ew, eh) {
                return Err(fail("plane-size", format!("step {si} plane {pl} is {pw}x{ph}, expected {ew}x{eh}")));
            }
            for (i, code) in samples.iter().enumerate() {
                let (x, y) = (i % pw, i / pw);
                let (lx, ly) = if pl == 0 { (x, y) } else { (x << ssx, y << ssy) };
                let col = cols[(ly / 4) * hc.bw + lx / 4];
                let want = ideal(c, col)[pl].clamp(0.0, ((1u64 << c.bit_depth) - 1) as f64);
                if !((*code as f64 - want).abs() <= tol) {
                    return Err(fail("code", format!("step {si} (config {}): plane {pl} sample ({x},{y}) is {code}, the H.273 ideal (clamped to the code range) for its colour {:?} is {:.4}", cfg_json(c), col, want)));
                }
            }
            st.comparisons += samples.len() as u64;
        }
    }
    st.class("encode_histories", 1);
    st.nontrivial(&hc.to_json().to_string());
    st.sample(|| hc.to_json());
    Ok(())
}

pub fn run(ctx: &Ctx, st: &mut Stats) -> Vec<Violation> {
    let mut v = run_proptest(ctx, st, "random", ctx.cases(60_000, 5_000_000), strategy, check);
    if !v.is_empty() {
        return v;
    }
    v.extend(lattice(ctx, st));
    if !v.is_empty() {
        return v;
    }
    v.extend(run_proptest(ctx, st, "enc-histories", ctx.cases(30_000, 1_000_000), enc_hist_strategy, check_enc_hist));
    if !v.is_empty() {
        return v;
    }
    v.extend(large_frames(ctx, st));
    if !v.is_empty() {
        return v;
    }
    v.extend(super::soak::run(ctx, st, "C02", soak_jobs(ctx)));
    v
}

/// long single-thread encode histories (soak.rs): configs differing in matrix, range or depth
fn soak_jobs(ctx: &Ctx) -> Vec<super::soak::Job> {
    use super::soak::{with_periods, Side, PERIODS};
    use crate::conv::{Edge, Kind};
    let mut jobs = Vec::new();
    for (u8_out, depth) in [(true, 8u8), (false, 10), (false, 16)] {
        let a = cfg(STD_MC[0], TC::BT1886, CP::BT709, depth, false, (0, 0));
        let mut variants = vec![cfg(STD_MC[5], TC::BT1886, CP::BT709, depth, false, (0, 0)), cfg(STD_MC[0], TC::BT1886, CP::BT709, depth, true, (0, 0)), cfg(STD_MC[6], TC::BT1886, CP::BT709, depth, true, (0, 0))];
        if !u8_out {
            variants.push(cfg(STD_MC[0], TC::BT1886, CP::BT709, if depth == 16 { 12 } else { 9 }, false, (0, 0)));
        }
        for (i, b) in variants.into_iter().enumerate() {
            if ctx.light && i > 0 {
                continue;
            }
            for by_ref in [true, false] {
                let e = Edge::RgbToYuv { by_ref, u8_out };
                jobs.extend(with_periods(Side { kind: Kind::Rgb, edge: e, cfg: a }, Side { kind: Kind::Rgb, edge: e, cfg: b }, &PERIODS));
            }
        }
    }
    jobs
}

/// real-size images (see gen::LARGE_SIZES): size-gated paths (tiling, threads, tables) only run there
fn large_frames(ctx: &Ctx, st: &mut Stats) -> Vec<Violation> {
    let sizes: Vec<(usize, usize)> = if ctx.light { vec![(257, 255), (521, 511), (8200, 3)] } else { crate::gen::large_sizes(ctx.quick()) };
    let seed0 = ctx.seed;
    par_sweep(ctx, st, sizes.len() as u64, |lo, hi, st| {
        for j in lo..hi {
            let (w, h) = sizes[j as usize];
            let mut k = 0u64;
            for (depth, u8s) in [(8u8, true), (16, false), (10, false)] {
                for full in [false, true] {
                    k += 1;
                    let c = cfg(STD_MC[((j + k) % 7) as usize], TC::BT1886, CP::BT709, depth, full, (0, 0));
                    let case = Case { cfg: c, u8_storage: u8s, by_value: k % 2 == 0, w, h, px: Px::Seeded { stratum: [0u8, 2, 6, 1][(k % 4) as usize], seed: mix64(seed0 ^ (j << 8) ^ k) | 1 } };
                    let mut local = Stats::new();
                    local.sample_budget = 0;
                    if let Err(v) = check(&case, &mut local) {
                        return Some(v);
                    }
                    st.evaluations += 1;
                    st.comparisons += (w * h * 3) as u64;
                    st.nontrivial_by_construction += 1;
                    st.class("large_frames", 1);
                }
            }
        }
        None
    })
}

/// RGB lattice per (matrix, range, depth): quick 24^3 at depths {8,10,16}; thorough 96^3 at all depths,
/// plus 2^22 random pixels per config in thorough.
fn lattice(ctx: &Ctx, st: &mut Stats) -> Vec<Violation> {
    let mut jobs = Vec::new();
    let depths: Vec<u8> = if ctx.quick() { vec![8, 10, 16] } else { (8..=16).collect() };
    for mc in STD_MC {
        for full in [false, true] {
            for &d in &depths {
                jobs.push((mc, full, d));
            }
        }
    }
    let side: usize = if ctx.light { 16 } else { ctx.pick(40, 128) };
    let quick = ctx.quick();
    let seed0 = ctx.seed;
    par_sweep(ctx, st, jobs.len() as u64, |lo, hi, st| {
        for j in lo..hi {
            let (mc, full, depth) = jobs[j as usize];
            let c = cfg(mc, TC::BT1886, CP::BT709, depth, full, (0, 0));
            for zi in 0..side {
                let mut px = Vec::with_capacity(side * side);
                for yi in 0..side {
                    for xi in 0..side {
                        let f = |i: usize| (-0.5 + 2.0 * i as f64 / (side - 1) as f64) as f32;
                        px.push([f(xi), f(yi), f(zi)]);
                    }
                }
                let case = Case { cfg: c, u8_storage: depth == 8 && zi % 2 == 0, by_value: false, w: side, h: side, px: Px::Explicit(px) };
                let mut local = Stats::new();
                local.sample_budget = 0;
                if let Err(v) = check(&case, &mut local) {
                    return Some(v);
                }
                st.evaluations += 1;
                st.comparisons += (side * side * 3) as u64;
                st.nontrivial_by_construction += 1;
                st.class("lattice_slices", 1);
                for (k, v) in local.maxima {
                    st.max(&k, v);
                }
            }
            if !quick {
                for chunk in 0..192u64 {
                    for stratum in [0u8, 3] {
                        let case = Case {
                            cfg: c,
                            u8_storage: false,
                            by_value: false,
                            w: 256,
                            h: 128,
                            px: Px::Seeded { stratum, seed: mix64(seed0 ^ (j << 24) ^ (chunk << 4) ^ stratum as u64) },
                        };
                        let mut local = Stats::new();
                        local.sample_budget = 0;
                        if let Err(v) = check(&case, &mut local) {
                            return Some(v);
                        }
                        st.evaluations += 1;
                        st.comparisons += 256 * 128 * 3;
                        st.nontrivial_by_construction += 1;
                        st.class("deep_random_chunks", 1);
                        for (k, v) in local.maxima {
                            st.max(&k, v);
                        }
                    }
                }
            }
        }
        None
    })
}

pub fn replay(v: &Value) -> Result<(), String> {
    if v.get("part").and_then(|p| p.as_str()) == Some("soak") {
        return super::soak::replay("C02", v);
    }
    if v.get("part").and_then(|p| p.as_str()) == Some("enc-history") {
        let hc = EncHist::from_json(v).ok_or("bad history")?;
        return std::thread::spawn(move || check_enc_hist(&hc, &mut Stats::new()).map_err(|v| v.message)).join().map_err(|_| "panicked".to_string())?;
    }
    let cfg = cfg_from_json(v.get("cfg").ok_or("cfg")?).ok_or("bad cfg")?;
    let seeded = v.get("seeded").and_then(|sd| Some(Px::Seeded { stratum: sd.get("stratum")?.as_u64()? as u8, seed: sd.get("seed")?.as_str()?.parse().ok()? }));
    let px: Vec<[f32; 3]> = if seeded.is_some() { vec![] } else { v.get("pixels").and_then(|p| p.as_array()).ok_or("pixels")?.iter().filter_map(j2px).collect() };
    let case = Case {
        cfg,
        u8_storage: v.get("storage").and_then(|s| s.as_str()) == Some("u8"),
        by_value: v.get("by_value").and_then(|s| s.as_bool()).unwrap_or(false),
        w: v.get("w").and_then(|x| x.as_u64()).unwrap_or(px.len() as u64) as usize,
        h: v.get("h").and_then(|x| x.as_u64()).unwrap_or(1) as usize,
        px: seeded.unwrap_or(Px::Explicit(px)),
    };
    check(&case, &mut Stats::new()).map_err(|v| v.message)
}

pub const RULE: &str = "cases = (matrix in 7 standard, range, depth 8..16, storage, by-ref/by-value, w x h image (1..32 x 1..8) of RGB pixels in [-0.5,1.5]^3 from 8 strata: uniform cube, in-gamut cube, near-achromatic, chroma zero-crossings after a black pixel, a third of the images with related neighbours, 5^3 lattice, near-tie pixels (ideal code fractional part 0.5+-1e-7..1e-2, built through the oracle decoder and re-evaluated from the actual f32 values), clamp ends, full-range chroma -0.5) generated by proptest, plus an enumerated RGB lattice per config and real-size images (32768 .. 2 M pixels, rows up to 131080 wide); a third of the Rgb objects are produced by painting the pixels over a grey canvas through data_mut(); every plane sample compared with the f64 H.273 ideal: |code - clamp(ideal)| <= 0.5 + 1e-6*2^n; output config/dims compared with the request; non-trivial = image with at least one plane ideal strictly inside (0, 2^n-1); distinct = by hash of (config, pixel bits)";
