//! C10 gamma -> linear -> gamma is the identity within half a 10-bit step.

use super::c03::{self, Case, Dir, Vals};
use crate::engine::*;
use crate::gen::sup_transfer;
use crate::oracle::tc_name;
use proptest::prelude::*;
use serde_json::Value;
use yuvxyb::{ColorPrimaries as CP, LinearRgb, Rgb, TransferCharacteristic as TC};

pub fn tolerance(t: TC) -> f64 {
    if t == TC::PerceptualQuantizer {
        5.7e-4
    } else {
        2.5e-4
    }
}

/// the observation named by the property: Rgb::try_from((LinearRgb::try_from(Rgb{t})?, t, BT709))
pub fn lib_roundtrip(t: TC, vals: &[f32]) -> Result<Vec<f32>, String> {
    lib_roundtrip_m(t, vals, None)
}

pub fn lib_roundtrip_m(t: TC, vals: &[f32], mates: Option<u64>) -> Result<Vec<f32>, String> {
    if let Some(seed) = mates {
        // one checked value per pixel, in-range mates only (the intermediate linear image is then
        // in range too); the round trip is stated per component
        let mut e = Expand(seed ^ 0x10AA);
        let px: Vec<[f32; 3]> = vals
            .iter()
            .enumerate()
            .map(|(i, v)| {
                let mut p = [e.unit() as f32, e.unit() as f32, e.unit() as f32];
                if e.below(3) == 0 {
                    p = [0.0, 1.0, 0.0];
                }
                p[i % 3] = *v;
                p
            })
            .collect();
        let n = px.len();
        let rgb = Rgb::new(px, n, 1, t, CP::BT709).map_err(|e| format!("Rgb::new: {e:?}"))?;
        let lin = LinearRgb::try_from(rgb).map_err(|e| format!("to_linear failed: {e:?}"))?;
        let back = Rgb::try_from((lin, t, CP::BT709)).map_err(|e| format!("to_gamma failed: {e:?}"))?;
        return Ok(back.data().iter().enumerate().map(|(i, p)| p[i % 3]).collect());
    }
    let n = (vals.len() + 2) / 3;
    let mut px = vec![[0.5f32; 3]; n];
    for (i, v) in vals.iter().enumerate() {
        px[i / 3][i % 3] = *v;
    }
    let rgb = Rgb::new(px, n, 1, t, CP::BT709).map_err(|e| format!("Rgb::new: {e:?}"))?;
    let lin = LinearRgb::try_from(rgb).map_err(|e| format!("to_linear failed: {e:?}"))?;
    let back = Rgb::try_from((lin, t, CP::BT709)).map_err(|e| format!("to_gamma failed: {e:?}"))?;
    if back.width() != n || back.height() != 1 {
        return Err("dimensions changed".into());
    }
    Ok((0..vals.len()).map(|i| back.data()[i / 3][i % 3]).collect())
}

pub fn strategy() -> BoxedStrategy<Case> {
    (sup_transfer(), 0u8..9, any::<u64>(), 1usize..=768, prop::bool::weighted(0.25))
        .prop_map(|(t, stratum, seed, n, mates)| Case {
            t,
            dir: Dir::ToLinear,
            vals: Vals::Seeded { stratum, seed, n: if stratum % 9 == 6 { n.min(96) } else { n } },
            mates: if mates && stratum % 9 != 8 { Some(seed) } else { None },
        })
        .boxed()
}

pub fn check(case: &Case, st: &mut Stats) -> Result<(), Violation> {
    check_named("C10", case, st)
}

pub fn check_named(prop: &str, case: &Case, st: &mut Stats) -> Result<(), Violation> {
    let vals = case.values();
    let t = case.t;
    let sig = format!("{prop}:roundtrip:{}", tc_name(t));
    let fail = |msg: String, vals: &[f32]| Violation { signature: sig.clone(), message: msg, case: case.json_with(prop, vals) };
    let got = match catch(|| lib_roundtrip_m(t, &vals, case.mates)) {
        Err(p) => return Err(fail(format!("panic: {p}"), &vals)),
        Ok(Err(e)) => return Err(fail(e, &vals)),
        Ok(Ok(g)) => g,
    };
    st.evaluations += 1;
    let tol = tolerance(t);
    let mut nontrivial = false;
    for (x, g) in vals.iter().zip(&got) {
        let diff = (f64::from(*g) - f64::from(*x)).abs();
        if !(diff < tol) {
            let bad = |q: f32| -> bool {
                match lib_roundtrip(t, &[q]) {
                    Ok(o) => !((f64::from(o[0]) - f64::from(q)).abs() < tol),
                    Err(_) => false,
                }
            };
            if !bad(*x) {
                return Err(Violation {
                    signature: sig.clone(),
                    message: format!("{} round trip: x={:e} returns correctly alone but comes back as {:e} inside this image (neighbour-dependent)", tc_name(t), x, g),
                    case: case.json_with(prop, &vals),
                });
            }
            let small = minimize_f32(*x, 0.0, 1.0, bad);
            if small != *x {
                let o = lib_roundtrip(t, &[small]).map(|o| o[0]).unwrap_or(f32::NAN);
                return Err(fail(format!("{} round trip at x={:e} (shrunk from {:e}): came back as {:e} (tolerance {:e})", tc_name(t), small, x, o, tol), &[small]));
            }
            return Err(fail(format!("{} round trip at x={:e}: came back as {:e} (|diff| {:e} >= {:e})", tc_name(t), x, g, diff, tol), &[*x]));
        }
        st.max(&format!("rt_err_{}", tc_name(t)), diff);
        if *x > 0.0 && *x < 1.0 {
            nontrivial = true;
        }
    }
    st.comparisons += vals.len() as u64;
    st.class(&format!("curve_{}", tc_name(t)), 1);
    if let Vals::Seeded { stratum, .. } = case.vals {
        st.class(&format!("stratum_{}", stratum % 9), 1);
    }
    if nontrivial {
        let bits: Vec<u32> = vals.iter().map(|v| v.to_bits()).collect();
        st.nontrivial(&(tc_name(t), bits));
    }
    st.sample(|| case.json_with(prop, &vals[..vals.len().min(6)]));
    Ok(())
}

pub fn run(ctx: &Ctx, st: &mut Stats) -> Vec<Violation> {
    let mut v = run_proptest(ctx, st, "random", ctx.cases(12_000, 120_000), strategy, check);
    if !v.is_empty() {
        return v;
    }
    v.extend(c03::large_images(ctx, st, "C10", check_named, &[Dir::ToLinear]));
    if !v.is_empty() {
        return v;
    }
    v.extend(c03::code_grids(ctx, st, "C10", check_named, &[Dir::ToLinear]));
    if !v.is_empty() {
        return v;
    }
    v.extend(c03::banded_images(ctx, st, "C10", check_named, &[Dir::ToLinear]));
    if !v.is_empty() {
        return v;
    }
    let stride = if ctx.light { 1021 } else { ctx.pick(127, 1) };
    v.extend(c03::sweep(ctx, st, "C10", stride, check_named, &[Dir::ToLinear]));
    if stride == 1 && v.is_empty() {
        st.exhaustive_parts.push("ALL: every f32 in [0,1] (1,065,353,217 values) x 14 curves".into());
    } else {
        st.notes.push(format!("strided enumeration of [0,1]: every {stride}th f32 bit pattern (offset VERIF_SEED mod stride) per curve"));
    }
    v
}

pub fn replay(v: &Value) -> Result<(), String> {
    let case = Case::from_json(v).ok_or("bad case")?;
    check(&case, &mut Stats::new()).map_err(|v| v.message)
}

pub const RULE: &str = "cases = (curve in 14 supported, batch of 1..768 values of [0,1] from the 8 strata of C03, incl. feedback chains and repeats; a quarter of the cases with one checked value per pixel) generated by proptest, plus a strided (quick) or complete (thorough) enumeration of all f32 in [0,1]; oracle = round trip Rgb{t} -> LinearRgb -> Rgb{t} returns x with |diff| < 5.7e-4 (PQ) / 2.5e-4 (others); non-trivial = batch containing a value strictly inside (0,1); distinct = by hash of (curve, value bits)";
