//! C04 Linear RGB->XYB equals the JPEG XL opsin definition. C05 XYB->linear RGB inverts it.

use crate::engine::*;
use crate::oracle;
use proptest::prelude::*;
use serde_json::{json, Value};
use yuvxyb::{LinearRgb, Xyb};

pub const TOL_C04: f64 = 2e-6;
pub const TOL_C05: f64 = 5e-5;

#[derive(Debug, Clone)]
pub struct Case {
    pub w: usize,
    pub h: usize,
    pub px: Px,
}
#[derive(Debug, Clone)]
pub enum Px {
    Seeded { stratum: u8, seed: u64 },
    Explicit(Vec<[f32; 3]>),
}

/// C04 strata: 0 uniform [0,4]^3; 1 near black (scale log-uniform 1e-9..1e-1); 2 greys in [0,4];
/// 3 single channel; 4 [-1,4]^3 with at least one negative component; 5 [0,1]^3 uniform;
/// 6 R close to G (|R-G| log-uniform 1e-7..1e-2), any B; 7 lattice corners of [0,4]^3 / [0,1]^3;
/// 8 near-neutral: a grey level plus per-component perturbations of one common scale, log-uniform 1e-7..1e-3
pub fn expand(stratum: u8, seed: u64, n: usize, unit_cube_only: bool) -> Vec<[f32; 3]> {
    let mut e = Expand(seed);
    let hi: f64 = if unit_cube_only { 1.0 } else { 4.0 };
    let mut out = Vec::with_capacity(n);
    for _ in 0..n {
        let p: [f64; 3] = match stratum % 9 {
            8 => {
                let g = e.range_f64(0.0, hi.min(1.0));
                let sc = 10f64.powf(e.range_f64(-7.0, -3.0));
                [(g + sc * (2.0 * e.unit() - 1.0)).clamp(0.0, hi), (g + sc * (2.0 * e.unit() - 1.0)).clamp(0.0, hi), (g + sc * (2.0 * e.unit() - 1.0)).clamp(0.0, hi)]
            }
            0 => [e.range_f64(0.0, hi), e.range_f64(0.0, hi), e.range_f64(0.0, hi)],
            1 => {
                let s = 10f64.powf(e.range_f64(-9.0, -1.0));
                [s * e.unit(), s * e.unit(), s * e.unit()]
            }
            2 => {
                let g = e.range_f64(0.0, hi);
                [g, g, g]
            }
            3 => {
                let mut p = [0.0; 3];
                p[e.below(3) as usize] = e.range_f64(0.0, hi);
                p
            }
            4 => {
                if unit_cube_only {
                    [e.unit(), e.unit(), e.unit()]
                } else {
                    let mut p = [e.range_f64(-1.0, 4.0), e.range_f64(-1.0, 4.0), e.range_f64(-1.0, 4.0)];
                    let i = e.below(3) as usize;
                    p[i] = -e.unit();
                    p
                }
            }
            5 => [e.unit(), e.unit(), e.unit()],
            6 => {
                let r = e.range_f64(0.0, hi.min(1.0));
                let d = 10f64.powf(e.range_f64(-7.0, -2.0)) * if e.below(2) == 0 { 1.0 } else { -1.0 };
                [r, (r + d).clamp(0.0, hi), e.range_f64(0.0, hi.min(1.0))]
            }
            _ => {
                let l = [0.0, hi / 2.0, hi, 1.0, 0.5];
                [*e.pick(&l), *e.pick(&l), *e.pick(&l)]
            }
        };
        out.push([p[0] as f32, p[1] as f32, p[2] as f32]);
    }
    out
}

fn forward(px: Vec<[f32; 3]>) -> Option<Vec<[f32; 3]>> {
    let n = px.len();
    catch(|| LinearRgb::new(px, n, 1).ok().map(|l| Xyb::from(l).into_data())).ok().flatten()
}

/// A pixel of [0,1]^3, far from `p0`, whose forward transform agrees *bit-exactly* with that of `p0` in the XYB
/// channels of `keep` and differs in the others: the changed XYB value is inverted with the f64 definition and the
/// result is then tuned by a few ulps (two components at a time) using the library's own forward conversion.
/// Neighbouring pixels related like this are what an inverse that remembers part of the previous pixel trips over.
pub fn xyb_twin(p0: [f32; 3], keep: [bool; 3], e: &mut Expand) -> Option<[f32; 3]> {
    let x0 = forward(vec![p0])?[0];
    let amp = [0.02f64, 0.3, 0.4];
    let mut scale = 1.0;
    for _ in 0..7 {
        let mut t = [x0[0] as f64, x0[1] as f64, x0[2] as f64];
        for k in 0..3 {
            if !keep[k] {
                t[k] += scale * amp[k] * e.range_f64(0.1, 1.0) * if e.below(2) == 0 { 1.0 } else { -1.0 };
            }
        }
        scale *= 0.5;
        let s = oracle::xyb_to_lrgb(t);
        let start = [s[0] as f32, s[1] as f32, s[2] as f32];
        if !start.iter().all(|v| *v > 1e-3 && *v < 0.999) {
            continue;
        }
        const R: i32 = 40;
        let step = |v: f32, d: i32| f32::from_bits((v.to_bits() as i32 + d) as u32);
        let mut cands = Vec::with_capacity(3 * ((2 * R + 1) * (2 * R + 1)) as usize);
        for (a, b) in [(0usize, 1usize), (1, 2), (0, 2)] {
            for da in -R..=R {
                for db in -R..=R {
                    let mut q = start;
                    q[a] = step(q[a], da);
                    q[b] = step(q[b], db);
                    cands.push(q);
                }
            }
        }
        let out = forward(cands.clone())?;
        for (q, x) in cands.iter().zip(out.iter()) {
            if (0..3).all(|k| !keep[k] || x[k].to_bits() == x0[k].to_bits()) && (0..3).any(|k| (q[k] - p0[k]).abs() > 1e-3) {
                return Some(*q);
            }
        }
    }
    None
}

/// A pixel of [0,1]^3 whose forward transform is bit-identical, in all three channels, to `target` (f64 inverse, then
/// a +-10 ulp search in all three components with the library's forward conversion). With `target` = the round-trip
/// result of the previous pixel this builds the image an in-place inverse trips over: an XYB pixel equal to the
/// already converted (linear RGB) value of its left neighbour.
pub fn xyb_preimage(target: [f32; 3]) -> Option<[f32; 3]> {
    let s = oracle::xyb_to_lrgb([target[0] as f64, target[1] as f64, target[2] as f64]);
    let start = [s[0] as f32, s[1] as f32, s[2] as f32];
    if !start.iter().all(|v| *v > 1e-3 && *v < 0.999) {
        return None;
    }
    const R: i32 = 10;
    let step = |v: f32, d: i32| f32::from_bits((v.to_bits() as i32 + d) as u32);
    let mut cands = Vec::with_capacity(((2 * R + 1) * (2 * R + 1) * (2 * R + 1)) as usize);
    for da in -R..=R {
        for db in -R..=R {
            for dc in -R..=R {
                cands.push([step(start[0], da), step(start[1], db), step(start[2], dc)]);
            }
        }
    }
    let out = forward(cands.clone())?;
    cands.iter().zip(out.iter()).find(|(_, x)| (0..3).all(|k| x[k].to_bits() == target[k].to_bits())).map(|(q, _)| *q)
}

/// how many XYB twins `pixels()` placed (a class counter for the evidence)
pub static TWINS_PLACED: std::sync::atomic::AtomicU64 = std::sync::atomic::AtomicU64::new(0);

impl Case {
    pub fn pixels(&self, unit: bool) -> Vec<[f32; 3]> {
        match &self.px {
            Px::Seeded { stratum: 99, seed } => {
                // 4099 is prime: for any block size below it every position inside a block is visited, by a lone outlier
                let mut px = expand(5, *seed, self.w * self.h, unit);
                for (k, i) in (1364..px.len()).step_by(4099).enumerate() {
                    let mut q = [1e-4f32; 3];
                    q[k % 3] = -0.25 - 0.5 * ((k % 7) as f32 / 7.0);
                    px[i] = q;
                }
                px
            }
            Px::Seeded { stratum, seed } => {
                let mut px = expand(*stratum, *seed, self.w * self.h, unit);
                if seed % 3 == 0 {
                    // related neighbours; feedback = the library's own XYB / round-trip result of the previous pixel
                    let fb = |p: [f32; 3]| -> Option<[f32; 3]> { LinearRgb::new(vec![p], 1, 1).ok().map(|l| Xyb::from(l).data()[0]) };
                    let dom = |p: [f32; 3]| -> bool { p.iter().all(|x| x.is_finite() && *x >= 0.0 && *x <= if unit { 1.0 } else { 4.0 }) };
                    correlate_px(&mut px, *seed, Some(&fb), &dom);
                }
                if !unit && seed % 5 == 2 {
                    // sparse outliers: a non-negative image with one to three pixels that have exactly one negative
                    // component (whole-buffer pre-scans for "any negative value" must look at every lane)
                    let mut e = Expand(*seed ^ 0x5BA7);
                    for p in px.iter_mut() {
                        for c in p.iter_mut() {
                            *c = c.abs();
                        }
                    }
                    for _ in 0..1 + e.below(3) {
                        let i = e.below(px.len() as u64) as usize;
                        let k = e.below(3) as usize;
                        let small = if e.below(2) == 0 { 0.0 } else { 1e-4 };
                        let mut q = [small; 3];
                        q[k] = -(e.range_f64(0.1, 1.0) as f32);
                        px[i] = q;
                    }
                }
                if seed % 4 == 1 {
                    let fb = |p: [f32; 3]| -> Option<[f32; 3]> { LinearRgb::new(vec![p], 1, 1).ok().map(|l| Xyb::from(l).data()[0]) };
                    let dom = |p: [f32; 3]| -> bool { p.iter().all(|x| x.is_finite() && *x >= 0.0 && *x <= if unit { 1.0 } else { 4.0 }) };
                    correlate_rows(&mut px, self.w, self.h, *seed, &fb, &dom);
                }
                if unit && seed % 16 == 6 && px.len() >= 2 {
                    // C05: a pixel whose XYB equals, bit for bit, the round-trip result of its left neighbour
                    let mut e = Expand(*seed ^ 0x9E1A);
                    for _ in 0..4 {
                        let i = e.below(px.len() as u64 - 1) as usize;
                        let p0 = [e.range_f64(0.0, 0.02) as f32, e.range_f64(0.05, 0.8) as f32, e.range_f64(0.05, 0.8) as f32];
                        let q0 = LinearRgb::new(vec![p0], 1, 1).ok().map(|l| LinearRgb::from(Xyb::from(l)).data()[0]);
                        if let Some(p1) = q0.and_then(xyb_preimage) {
                            px[i] = p0;
                            px[i + 1] = p1;
                            TWINS_PLACED.fetch_add(1, std::sync::atomic::Ordering::Relaxed);
                            break;
                        }
                    }
                }
                if unit && seed % 8 == 5 && px.len() >= 2 {
                    // C05: up to three neighbours whose XYB agrees bit-exactly in one or two channels
                    let mut e = Expand(*seed ^ 0x7A11);
                    let masks = [[true, true, false], [true, false, true], [false, true, true], [true, false, false], [false, true, false], [false, false, true]];
                    for _ in 0..1 + e.below(3) {
                        let i = e.below(px.len() as u64 - 1) as usize;
                        let keep = *e.pick(&masks);
                        if let Some(q) = xyb_twin(px[i], keep, &mut e) {
                            px[i + 1] = q;
                            TWINS_PLACED.fetch_add(1, std::sync::atomic::Ordering::Relaxed);
                        }
                    }
                }
                px
            }
            Px::Explicit(v) => v.clone(),
        }
    }
    pub fn json_with(&self, prop: &str, px: &[[f32; 3]], w: usize, h: usize) -> Value {
        if px.len() > 4096 {
            if let Px::Seeded { stratum, seed } = &self.px {
                return json!({"prop": prop, "w": w, "h": h, "seeded": {"stratum": stratum, "seed": seed.to_string()}});
            }
        }
        json!({"prop": prop, "w": w, "h": h, "pixels": px.iter().map(|p| px2j(*p)).collect::<Vec<_>>()})
    }
    pub fn from_json(v: &Value) -> Option<Case> {
        if let Some(sd) = v.get("seeded") {
            return Some(Case { w: v.get("w")?.as_u64()? as usize, h: v.get("h")?.as_u64()? as usize, px: Px::Seeded { stratum: sd.get("stratum")?.as_u64()? as u8, seed: sd.get("seed")?.as_str()?.parse().ok()? } });
        }
        let px: Vec<[f32; 3]> = v.get("pixels")?.as_array()?.iter().filter_map(j2px).collect();
        Some(Case { w: v.get("w")?.as_u64()? as usize, h: v.get("h")?.as_u64()? as usize, px: Px::Explicit(px) })
    }
}

pub fn strategy() -> BoxedStrategy<Case> {
    (0u8..9, any::<u64>(), 1usize..=40, 1usize..=12)
        .prop_map(|(stratum, seed, w, h)| {
            // single pixels and tiny images often: whole-image fast paths depend on all pixels
            let (w, h) = if seed % 4 == 1 { shape_from(seed, 40, 12) } else { (w, h) };
            Case { w, h, px: Px::Seeded { stratum, seed } }
        })
        .boxed()
}

/// is the pixel inside the domain C04 quantifies over?
pub fn c04_in_domain(p: [f32; 3]) -> bool {
    if !p.iter().all(|x| x.is_finite() && *x >= -1.0 && *x <= 4.0) {
        return false;
    }
    if p.iter().all(|x| *x >= 0.0) {
        return true;
    }
    let m = oracle::opsin_mix([p[0] as f64, p[1] as f64, p[2] as f64]);
    m.iter().all(|x| *x <= -1e-3 || *x >= 0.05)
}

pub fn check_c04(case: &Case, st: &mut Stats) -> Result<(), Violation> {
    let px = case.pixels(false);
    let sig = "C04:lrgb_to_xyb".to_string();
    let fail = |msg: String, p: &[[f32; 3]], w: usize, h: usize| Violation { signature: sig.clone(), message: msg, case: case.json_with("C04", p, w, h) };
    if let Some(k) = prior_perm_kind(px.iter().flat_map(|p| p.iter().map(|c| c.to_bits())), px.len()) {
        // the previous call on this thread converts a permutation of the same pixels (result ignored)
        let q = permuted(&px, k, case.w);
        let _ = catch(|| LinearRgb::new(q, case.w, case.h).map(Xyb::from).map(|_| ()));
        st.class("preceded_by_a_permutation_of_the_same_image", 1);
    }
    let res = catch(|| {
        // the LinearRgb object is either fresh or the result of an earlier Hsl -> LinearRgb conversion that was
        // then painted over through data_mut(): only the pixel data may matter
        let paint = px.len() > 1 && (px[0][2].to_bits() ^ px[px.len() - 1][1].to_bits()) % 3 == 0;
        let l = if paint {
            let mut l = LinearRgb::from(yuvxyb::Hsl::new(vec![[120.0f32, 0.5, 0.5]; px.len()], case.w, case.h).map_err(|e| format!("{e:?}"))?);
            l.data_mut().copy_from_slice(&px);
            l
        } else {
            LinearRgb::new(px.clone(), case.w, case.h).map_err(|e| format!("{e:?}"))?
        };
        Ok::<_, String>(Xyb::from(l))
    });
    let xyb = match res {
        Err(p) => return Err(fail(format!("panic: {p}"), &px, case.w, case.h)),
        Ok(Err(e)) => return Err(fail(e, &px, case.w, case.h)),
        Ok(Ok(x)) => x,
    };
    st.evaluations += 1;
    if xyb.width() != case.w || xyb.height() != case.h || xyb.data().len() != px.len() {
        return Err(fail(format!("dimensions changed: {}x{} len {}", xyb.width(), xyb.height(), xyb.data().len()), &px, case.w, case.h));
    }
    let mut nontrivial = false;
    for (i, p) in px.iter().enumerate() {
        if !c04_in_domain(*p) {
            st.class("ill_conditioned_negative_pixel_not_compared", 1);
            continue;
        }
        let want = oracle::lrgb_to_xyb([p[0] as f64, p[1] as f64, p[2] as f64]);
        let got = xyb.data()[i];
        for j in 0..3 {
            let d = (f64::from(got[j]) - want[j]).abs();
            if !(d <= TOL_C04) {
                // reproduce the failing pixel in an image of the same size (position may matter)
                let msg = format!("pixel #{i} {:?} component {j}: got {:e}, opsin definition gives {:e} (|diff| {:e} > {:e}) in {}x{} image", p, got[j], want[j], d, TOL_C04, case.w, case.h);
                let single = LinearRgb::new(vec![*p], 1, 1).map(Xyb::from).map(|x| x.data()[0]);
                let single_bad = single.map(|s| (f64::from(s[j]) - want[j]).abs() > TOL_C04).unwrap_or(true);
                if single_bad {
                    let bad = |q: [f32; 3]| -> bool {
                        c04_in_domain(q)
                            && LinearRgb::new(vec![q], 1, 1).map(Xyb::from).map(|x| {
                                let w = oracle::lrgb_to_xyb([q[0] as f64, q[1] as f64, q[2] as f64]);
                                (0..3).any(|k| !((f64::from(x.data()[0][k]) - w[k]).abs() <= TOL_C04))
                            }).unwrap_or(false)
                    };
                    let small = minimize_px(*p, -1.0, 4.0, bad);
                    return Err(fail(format!("{msg}; shrunk reproduction {:?}", small), &[small], 1, 1));
                }
                return Err(fail(msg, &px, case.w, case.h));
            }
            st.max("max_abs_err", d);
        }
        if p.iter().any(|x| *x < 0.0) {
            st.class("negative_component_compared", 1);
        }
        if p[0] != p[1] || p[1] != p[2] {
            nontrivial = true;
        }
    }
    st.comparisons += px.len() as u64;
    if let Px::Seeded { stratum, .. } = case.px {
        st.class(&format!("stratum_{}", stratum % 9), 1);
    }
    st.class(if px.len() % 8 == 0 { "pixel_count_multiple_of_8" } else { "pixel_count_not_multiple_of_8" }, 1);
    if nontrivial {
        let bits: Vec<[u32; 3]> = px.iter().map(|p| [p[0].to_bits(), p[1].to_bits(), p[2].to_bits()]).collect();
        st.nontrivial(&(case.w, case.h, bits));
    }
    st.sample(|| case.json_with("C04", &px[..px.len().min(3)], px.len().min(3), 1));
    Ok(())
}

pub fn check_c05(case: &Case, st: &mut Stats) -> Result<(), Violation> {
    let px = case.pixels(true);
    let sig = "C05:xyb_roundtrip".to_string();
    let fail = |msg: String, p: &[[f32; 3]], w: usize, h: usize| Violation { signature: sig.clone(), message: msg, case: case.json_with("C05", p, w, h) };
    let rt = |px: &[[f32; 3]], w: usize, h: usize| -> Result<LinearRgb, String> {
        let l = LinearRgb::new(px.to_vec(), w, h).map_err(|e| format!("{e:?}"))?;
        Ok(LinearRgb::from(Xyb::from(l)))
    };
    if let Some(k) = prior_perm_kind(px.iter().flat_map(|p| p.iter().map(|c| c.to_bits())), px.len()) {
        let q = permuted(&px, k, case.w);
        let _ = catch(|| rt(&q, case.w, case.h).map(|_| ()));
        st.class("preceded_by_a_permutation_of_the_same_image", 1);
    }
    let back = match catch(|| rt(&px, case.w, case.h)) {
        Err(p) => return Err(fail(format!("panic: {p}"), &px, case.w, case.h)),
        Ok(Err(e)) => return Err(fail(e, &px, case.w, case.h)),
        Ok(Ok(x)) => x,
    };
    st.evaluations += 1;
    if back.width() != case.w || back.height() != case.h || back.data().len() != px.len() {
        return Err(fail(format!("dimensions changed: {}x{}", back.width(), back.height()), &px, case.w, case.h));
    }
    let mut nontrivial = false;
    for (i, p) in px.iter().enumerate() {
        let got = back.data()[i];
        for j in 0..3 {
            let d = (f64::from(got[j]) - f64::from(p[j])).abs();
            if !(d <= TOL_C05) {
                let msg = format!("pixel #{i} {:?} component {j}: came back as {:e} (|diff| {:e} > {:e}) in {}x{} image", p, got[j], d, TOL_C05, case.w, case.h);
                let single_bad = match catch(|| rt(&[*p], 1, 1)) {
                    Ok(Ok(s)) => (f64::from(s.data()[0][j]) - f64::from(p[j])).abs() > TOL_C05,
                    _ => true,
                };
                if single_bad {
                    let bad = |q: [f32; 3]| -> bool {
                        match catch(|| rt(&[q], 1, 1)) {
                            Ok(Ok(s)) => (0..3).any(|k| !((f64::from(s.data()[0][k]) - f64::from(q[k])).abs() <= TOL_C05)),
                            _ => false,
                        }
                    };
                    let small = minimize_px(*p, 0.0, 1.0, bad);
                    return Err(fail(format!("{msg}; shrunk reproduction {:?}", small), &[small], 1, 1));
                }
                return Err(fail(msg, &px, case.w, case.h));
            }
            st.max("max_roundtrip_err", d);
        }
        if p[0] != p[1] || p[1] != p[2] {
            nontrivial = true;
        }
        if (p[0] - p[1]).abs() < 1e-2 && p[0] != p[1] {
            st.class("r_close_to_g", 1);
        }
    }
    st.comparisons += px.len() as u64;
    if let Px::Seeded { stratum, .. } = case.px {
        st.class(&format!("stratum_{}", stratum % 9), 1);
    }
    st.class(if px.len() % 8 == 0 { "pixel_count_multiple_of_8" } else { "pixel_count_not_multiple_of_8" }, 1);
    if nontrivial {
        let bits: Vec<[u32; 3]> = px.iter().map(|p| [p[0].to_bits(), p[1].to_bits(), p[2].to_bits()]).collect();
        st.nontrivial(&(case.w, case.h, bits));
    }
    st.sample(|| case.json_with("C05", &px[..px.len().min(3)], px.len().min(3), 1));
    Ok(())
}

fn lattice(ctx: &Ctx, st: &mut Stats, side: usize, hi: f64, chk: fn(&Case, &mut Stats) -> Result<(), Violation>) -> Vec<Violation> {
    par_sweep(ctx, st, side as u64, |lo, hi_i, st| {
        for zi in lo..hi_i {
            let mut px = Vec::with_capacity(side * side);
            for yi in 0..side {
                for xi in 0..side {
                    let f = |i: usize| (hi * i as f64 / (side - 1) as f64) as f32;
                    px.push([f(xi), f(yi), f(zi as usize)]);
                }
            }
            let case = Case { w: side, h: side, px: Px::Explicit(px) };
            let mut local = Stats::new();
            local.sample_budget = 0;
            if let Err(v) = chk(&case, &mut local) {
                return Some(v);
            }
            st.evaluations += 1;
            st.comparisons += (side * side) as u64;
            st.nontrivial_by_construction += 1;
            st.class("lattice_slices", 1);
            for (k, v) in local.maxima {
                st.max(&k, v);
            }
        }
        None
    })
}

/// real-size images (see gen::LARGE_SIZES)
fn large_images(ctx: &Ctx, st: &mut Stats, chk: fn(&Case, &mut Stats) -> Result<(), Violation>) -> Vec<Violation> {
    let sizes: Vec<(usize, usize)> = if ctx.light { vec![(257, 255), (521, 511)] } else { crate::gen::large_sizes(ctx.quick()) };
    let seed0 = ctx.seed;
    par_sweep(ctx, st, sizes.len() as u64 * 3, |lo, hi, st| {
        for j in lo..hi {
            let (w, h) = sizes[(j / 3) as usize];
            // the third image of a size (C04): non-negative with one single-negative-component pixel every 4099 pixels
            // (stratum 99, see `pixels`)
            let third = if chk as usize == check_c04 as usize { 99u8 } else { 5 };
            let case = Case { w, h, px: Px::Seeded { stratum: [0u8, 8, third][(j % 3) as usize], seed: mix64(seed0 ^ (j << 8) ^ 0x1A46E) } };
            let mut local = Stats::new();
            local.sample_budget = 0;
            if let Err(v) = chk(&case, &mut local) {
                return Some(v);
            }
            st.evaluations += 1;
            st.comparisons += (w * h) as u64;
            st.nontrivial_by_construction += 1;
            st.class("large_images", 1);
            for (k, v) in local.maxima {
                st.max(&k, v);
            }
        }
        None
    })
}

pub fn run_c04(ctx: &Ctx, st: &mut Stats) -> Vec<Violation> {
    let mut v = run_proptest(ctx, st, "random", ctx.cases(100_000, 10_000_000), strategy, check_c04);
    if !v.is_empty() {
        return v;
    }
    v.extend(lattice(ctx, st, if ctx.light { 32 } else { ctx.pick(96, 320) }, 4.0, check_c04));
    if !v.is_empty() {
        return v;
    }
    v.extend(large_images(ctx, st, check_c04));
    v
}
pub fn run_c05(ctx: &Ctx, st: &mut Stats) -> Vec<Violation> {
    let mut v = run_proptest(ctx, st, "random", ctx.cases(100_000, 10_000_000), strategy, check_c05);
    if !v.is_empty() {
        return v;
    }
    v.extend(lattice(ctx, st, if ctx.light { 48 } else { ctx.pick(128, 512) }, 1.0, check_c05));
    if !v.is_empty() {
        return v;
    }
    v.extend(large_images(ctx, st, check_c05));
    st.class("neighbours_with_bit_equal_xyb_channels_placed", TWINS_PLACED.load(std::sync::atomic::Ordering::Relaxed));
    v
}

pub fn replay_c04(v: &Value) -> Result<(), String> {
    check_c04(&Case::from_json(v).ok_or("bad case")?, &mut Stats::new()).map_err(|v| v.message)
}
pub fn replay_c05(v: &Value) -> Result<(), String> {
    check_c05(&Case::from_json(v).ok_or("bad case")?, &mut Stats::new()).map_err(|v| v.message)
}

pub const RULE_C04: &str = "cases = w x h images (1..40 x 1..12, so pixel counts of every residue) of linear-RGB pixels from 9 strata, a third of the images with related neighbours (equal / partly equal / fed-back pixels), a quarter with related rows (a row equal to / mirrored from / the library's result for the row above), a fifth non-negative with one to three sparse pixels that have exactly one negative component, single-pixel and tiny images over-represented (uniform [0,4]^3, near-neutral, near black with log-uniform scale 1e-9..1e-1, greys, single channel, [-1,4]^3 with a negative component, unit cube, R close to G, lattice corners) generated by proptest, plus an enumerated lattice on [0,4]^3 and real-size images (32768 .. 2 M pixels); every in-domain pixel compared with the f64 opsin definition (tol 2e-6); negative pixels whose opsin mixes fall in (-1e-3, 0.05) are converted but not compared (outside the stated domain) and counted; non-trivial = image containing a non-grey pixel; distinct = by hash of (w,h,pixel bits)";
pub const RULE_C05: &str = "cases = w x h images (1..40 x 1..12) of linear-RGB pixels of [0,1]^3 from 9 strata, a third of the images with related neighbours (equal / partly equal / fed-back pixels), one image in eight with neighbours whose forward transforms agree bit-exactly in one or two XYB channels and differ in the rest (found by inverting the changed XYB value in f64 and tuning by a few ulps), one in sixteen with a pixel whose XYB is bit-identical to the round-trip result of its left neighbour, single-pixel and tiny images over-represented (uniform, near-neutral (grey + perturbations of scale 1e-7..1e-3), near black, greys, single channel, R close to G with |R-G| log-uniform 1e-7..1e-2, lattice corners) generated by proptest, plus an enumerated lattice on [0,1]^3 and real-size images (32768 .. 2 M pixels); oracle = LinearRgb -> Xyb -> LinearRgb returns every component within 5e-5, dimensions preserved; non-trivial = image containing a non-grey pixel; distinct = by hash of (w,h,pixel bits)";
