//! C20 Build configuration changes precision only, never semantics.
//!
//! The same binary is built once per build configuration by ./check. In each configuration it
//! (a) runs the numeric suites of C01-C06, C08, C10, C18 and the metadata suite of C15 at their quick workloads (in builds
//! without `fastmath` the tighter oracles apply: curves within 5e-5, powf/expf/cbrtf within 2 ulp of
//! libm), and (b) dumps the raw output bits of a seeded input set. The driver then compares the
//! dumps of pairs of configurations (`--diff`).

use super::{c01, c02, c03, c04, c06, c08, c10, c15, c18};
use crate::api::{cfg, codes444, frame444};
use crate::engine::*;
use crate::gen::expand_codes;
use crate::oracle::{tc_name, STD_MC, SUP_CP, SUP_TC};
use serde_json::{json, Value};
use yuvxyb::{ColorPrimaries as CP, LinearRgb, Rgb, TransferCharacteristic as TC, Xyb, Yuv};

type Suite = (&'static str, fn(&Ctx, &mut Stats) -> Vec<Violation>);

const SUITES: [Suite; 10] = [
    ("C01", c01::run),
    ("C02", c02::run),
    ("C03", c03::run),
    ("C04", c04::run_c04),
    ("C05", c04::run_c05),
    ("C06", c06::run),
    ("C08", c08::run),
    ("C10", c10::run),
    // metadata guessing (with the logger of the checking process enabled: its warnings are formatted and counted)
    ("C15", c15::run),
    ("C18", c18::run),
];

pub fn run(ctx: &Ctx, st: &mut Stats) -> Vec<Violation> {
    let mut out = Vec::new();
    // the sub-suites always run at their quick workloads; the thorough tier adds configurations
    let sub = Ctx { id: ctx.id.clone(), tier: Tier::Quick, seed: ctx.seed, threads: ctx.threads, known_open: ctx.known_open.clone(), build: ctx.build.clone(), light: true };
    for (name, f) in SUITES {
        let mut local = Stats::new();
        let sub = Ctx { id: name.to_string(), ..clone_ctx(&sub) };
        let vs = f(&sub, &mut local);
        st.evaluations += local.evaluations;
        st.comparisons += local.comparisons;
        st.nontrivial_by_construction += local.distinct_nontrivial();
        st.class(&format!("suite_{name}_cases"), local.evaluations);
        for (k, v) in local.maxima {
            st.max(&format!("{name}:{k}"), v);
        }
        if let Some(s) = local.samples.into_iter().next() {
            st.samples.push(json!({"suite": name, "build": ctx.build, "case": s}));
        }
        for v in vs {
            let mut case = v.case.clone();
            if let Value::Object(m) = &mut case {
                m.insert("prop".into(), json!("C20"));
                m.insert("suite".into(), json!(name));
            }
            out.push(Violation {
                signature: format!("C20:{}:{}", if cfg!(feature = "fastmath") { "fastmath" } else { "exact" }, v.signature),
                message: format!("[build {} / suite {name}] {}", ctx.build, v.message),
                case,
            });
        }
    }
    st.notes.push(format!(
        "build {}: fastmath feature of the harness = {}, FMA target feature = {}, debug assertions = {}",
        ctx.build,
        cfg!(feature = "fastmath"),
        cfg!(target_feature = "fma"),
        cfg!(debug_assertions)
    ));
    out
}

fn clone_ctx(c: &Ctx) -> Ctx {
    Ctx { id: c.id.clone(), tier: c.tier, seed: c.seed, threads: c.threads, known_open: c.known_open.clone(), build: c.build.clone(), light: c.light }
}

pub fn replay(v: &Value) -> Result<(), String> {
    match v.get("suite").and_then(|s| s.as_str()) {
        Some("C01") => c01::replay(v),
        Some("C02") => c02::replay(v),
        Some("C03") => c03::replay(v),
        Some("C04") => c04::replay_c04(v),
        Some("C05") => c04::replay_c05(v),
        Some("C06") => c06::replay(v),
        Some("C08") => c08::replay(v),
        Some("C10") => c10::replay(v),
        Some("C15") => c15::replay(v),
        Some("C18") => c18::replay(v),
        Some("diff") => Ok(()), // differential findings are re-checked by re-running the check
        _ => Err("unknown suite".into()),
    }
}

// ------------------------------------------------------------------ differential dump

/// sections: (name, absolute tolerance between builds, relative?, values as f32 bits or integer codes)
pub fn dump(seed: u64) -> Value {
    let mut sections: Vec<Value> = Vec::new();
    let n = 4096usize;
    // transfer curves
    for t in SUP_TC {
        for d in [c03::Dir::ToLinear, c03::Dir::ToGamma] {
            let mut vals = c03::expand_unit(0, mix64(seed ^ 1), n);
            vals.extend(c03::expand_unit(1, mix64(seed ^ 2), n / 2));
            vals.extend(c03::expand_unit(2, mix64(seed ^ 3), n / 2));
            let out = c03::lib_apply(t, d, &vals).unwrap_or_default();
            let tol = if t == TC::PerceptualQuantizer && d == c03::Dir::ToGamma { 5.7e-4 } else { 2.5e-4 };
            sections.push(json!({"name": format!("curve:{}:{:?}", tc_name(t), d), "tol": tol, "kind": "f32",
                                 "inputs": vals.iter().map(|x| x.to_bits()).collect::<Vec<_>>(),
                                 "bits": out.iter().map(|x| x.to_bits()).collect::<Vec<_>>()}));
        }
    }
    // XYB forward / round trip
    let px = c04::expand(5, mix64(seed ^ 4), n, true);
    let l = LinearRgb::new(px.clone(), n, 1).unwrap();
    let xyb = Xyb::from(l);
    let back = LinearRgb::from(xyb.clone());
    let flat = |d: &[[f32; 3]]| d.iter().flat_map(|p| p.iter().map(|x| x.to_bits())).collect::<Vec<u32>>();
    sections.push(json!({"name":"xyb:forward","tol":2e-6,"kind":"f32","inputs":flat(&px),"bits":flat(xyb.data())}));
    sections.push(json!({"name":"xyb:roundtrip","tol":5e-5,"kind":"f32","inputs":flat(&px),"bits":flat(back.data())}));
    // primaries
    let px6 = c06::expand(0, mix64(seed ^ 5), 1024);
    for p in SUP_CP {
        for to709 in [true, false] {
            let out = c06::lib_convert(p, to709, &px6, 1024, 1).unwrap_or_default();
            sections.push(json!({"name": format!("primaries:{:?}:{}", p, to709), "tol": 1e-5, "rel": true, "kind": "f32", "inputs": flat(&px6), "bits": flat(&out)}));
        }
    }
    // YUV decode (floats) and encode (codes)
    for (i, m) in STD_MC.iter().enumerate() {
        for (depth, full) in [(8u8, false), (10, true), (16, false)] {
            let c = cfg(*m, TC::BT1886, CP::BT709, depth, full, (0, 0));
            let codes = expand_codes(depth, 0, mix64(seed ^ 6 ^ i as u64), 2048);
            let yuv = Yuv::<u16>::new(frame444::<u16>(&codes, codes.len(), 1, 0, 0), c).unwrap();
            let rgb = Rgb::try_from(&yuv).unwrap();
            sections.push(json!({"name": format!("decode:{:?}:{}:{}", m, depth, full), "tol": 3e-6, "kind": "f32",
                                 "inputs": codes.iter().flat_map(|p| p.iter().map(|x| *x as u32)).collect::<Vec<_>>(), "bits": flat(rgb.data())}));
            let px2 = c02::expand(&c, 0, mix64(seed ^ 7 ^ i as u64), 2048);
            let y2 = Yuv::<u16>::try_from((&Rgb::new(px2.clone(), 2048, 1, TC::BT1886, CP::BT709).unwrap(), c)).unwrap();
            sections.push(json!({"name": format!("encode:{:?}:{}:{}", m, depth, full), "tol": 1.0, "kind": "code", "inputs": flat(&px2),
                                 "bits": codes444(&y2).iter().flat_map(|p| p.iter().map(|x| *x as u32)).collect::<Vec<_>>()}));
        }
    }
    // math helpers (relative tolerances)
    let mut e = Expand(mix64(seed ^ 8));
    let xs: Vec<f32> = (0..n).map(|_| f32::from_bits(0x0080_0000 + e.below(0x7F00_0000) as u32)).collect();
    sections.push(json!({"name":"math:cbrtf","tol":2.4e-7,"rel":true,"kind":"f32","inputs":xs.iter().map(|x| x.to_bits()).collect::<Vec<_>>(),
                         "bits":xs.iter().map(|x| yuvxyb_math::cbrtf(*x).to_bits()).collect::<Vec<_>>()}));
    let ex: Vec<f32> = (0..n).map(|_| e.range_f64(-85.0, 85.0) as f32).collect();
    sections.push(json!({"name":"math:expf","tol":1e-5,"rel":true,"kind":"f32","inputs":ex.iter().map(|x| x.to_bits()).collect::<Vec<_>>(),
                         "bits":ex.iter().map(|x| yuvxyb_math::expf(*x).to_bits()).collect::<Vec<_>>()}));
    for y in c18::LIB_EXPONENTS {
        let px: Vec<f32> = (0..n / 4).map(|_| e.unit() as f32 + 1e-6).collect();
        // C18 states the powf bound only where the true result lies in [1e-35, 1e35]
        sections.push(json!({"name":format!("math:powf:{y}"),"tol":c18::pow_bound(y),"rel":true,"min_mag":1e-35,"max_mag":1e35,"kind":"f32","inputs":px.iter().map(|x| x.to_bits()).collect::<Vec<_>>(),
                             "bits":px.iter().map(|x| yuvxyb_math::powf(*x, y).to_bits()).collect::<Vec<_>>()}));
    }
    json!({"fastmath": cfg!(feature = "fastmath"), "fma": cfg!(target_feature = "fma"), "sections": sections})
}

/// compare two dumps; returns (report json, violations)
pub fn diff(a: &Value, b: &Value, name_a: &str, name_b: &str) -> (Value, Vec<String>) {
    let mut viol = Vec::new();
    let mut differing = 0u64;
    let mut compared = 0u64;
    let mut worst: Vec<Value> = Vec::new();
    let sa = a["sections"].as_array().cloned().unwrap_or_default();
    let sb = b["sections"].as_array().cloned().unwrap_or_default();
    if sa.len() != sb.len() {
        viol.push(format!("dumps of {name_a} and {name_b} have different shapes"));
    }
    for (x, y) in sa.iter().zip(&sb) {
        let name = x["name"].as_str().unwrap_or("?");
        let tol = x["tol"].as_f64().unwrap_or(0.0);
        let rel = x["rel"].as_bool().unwrap_or(false);
        let code = x["kind"].as_str() == Some("code");
        let xa = x["bits"].as_array().cloned().unwrap_or_default();
        let yb = y["bits"].as_array().cloned().unwrap_or_default();
        if xa.len() != yb.len() || x["inputs"] != y["inputs"] {
            viol.push(format!("section {name}: the two builds were fed different inputs or produced outputs of different length"));
            continue;
        }
        let mut wmax = 0.0f64;
        for (i, (p, q)) in xa.iter().zip(&yb).enumerate() {
            let (p, q) = (p.as_u64().unwrap_or(0) as u32, q.as_u64().unwrap_or(0) as u32);
            compared += 1;
            if p == q {
                continue;
            }
            differing += 1;
            let (d, scale) = if code {
                ((p as f64 - q as f64).abs(), 1.0)
            } else {
                let (fp, fq) = (f32::from_bits(p) as f64, f32::from_bits(q) as f64);
                let (lo, hi) = (x["min_mag"].as_f64().unwrap_or(0.0), x["max_mag"].as_f64().unwrap_or(f64::INFINITY));
                if fp.abs().min(fq.abs()) < lo || fp.abs().max(fq.abs()) > hi {
                    continue; // outside the domain for which a bound is stated
                }
                ((fp - fq).abs(), if rel { fp.abs().max(fq.abs()).max(if name.starts_with("primaries") { 1.0 } else { 0.0 }) } else { 1.0 })
            };
            let lim = tol * scale;
            if !(d <= lim) {
                if viol.len() < 5 {
                    viol.push(format!("{name}: input #{i}: {name_a} gives {p:#x}, {name_b} gives {q:#x} (|diff| {d:e} > {lim:e})"));
                }
            }
            if lim > 0.0 {
                wmax = wmax.max(d / lim);
            }
        }
        worst.push(json!({"section": name, "max_diff_over_budget": wmax}));
    }
    worst.sort_by(|a, b| b["max_diff_over_budget"].as_f64().partial_cmp(&a["max_diff_over_budget"].as_f64()).unwrap());
    worst.truncate(6);
    (json!({"pair": format!("{name_a} vs {name_b}"), "compared": compared, "bitwise_different": differing, "worst_sections": worst}), viol)
}

pub const RULE: &str = "the quick generators of the numeric suites C01, C02, C03, C04, C05, C06, C08, C10 and C18 (same seed) executed in each build configuration {fastmath on/off} x {FMA off/on} (thorough: x {optimised, overflow/debug-checked}); in builds without fastmath the tighter oracles apply (every curve within 5e-5 of its definition on [0,1]; powf/expf/cbrtf within 2 ulp of f64 libm); plus a differential: every configuration dumps the raw output bits of a seeded input set (all curves and directions, XYB, primaries, YUV decode/encode, math helpers) and the dumps are compared pairwise (fastmath vs exact, FMA vs non-FMA) within the fastmath budgets. A case = one generated case of a sub-suite in one build, or one compared output value of the differential; non-trivial differential case = an input on which the two builds differ bitwise (shows that the switch reached the code)";
