//! C11, relation R10: order-permutation differential in fresh processes.
//!
//! Every constructor and conversion is a pure function of its arguments, so a fixed multiset of calls
//! must produce the same results whatever the order in which the calls are made. A worker process
//! (fresh process = fresh process-wide and thread-local state) executes the same list of calls in a
//! given order and prints one hash per call; the parent runs the list in three orders (as listed,
//! reversed, shuffled) and compares the hashes call by call. Memoisation with an incomplete or colliding
//! key, "last config" caches, grow-only scratch buffers and stale tables all make some order disagree.
//! The call list mixes tiny and real-size images (so that size-gated caches are reached), configs that
//! differ from each other in a single field (so that partial keys collide), Unspecified metadata and
//! frame shapes of equal area.

use super::c11::WORKING_MC;
use crate::api::cfg;
use crate::conv::*;
use crate::engine::*;
use crate::gen::SUBSAMPLINGS;
use crate::oracle::{STD_MC, SUP_CP, SUP_TC};
use serde_json::{json, Value};
use std::hash::{Hash, Hasher};
use yuvxyb::{ColorPrimaries as CP, Frame, MatrixCoefficients as MC, Plane, TransferCharacteristic as TC, Yuv, YuvConfig};

#[derive(Clone, Debug)]
enum Call {
    /// convert image `img` of the pool with edge choice `edge` under config `cfg`
    Convert { img: usize, edge: u8, cfg: usize },
    /// Yuv::new on an untouched frame of the given size with a config that leaves fields Unspecified
    YuvNew { w: usize, h: usize, cfg: usize, u16_storage: bool },
}

struct Plan {
    cfgs: Vec<YuvConfig>,
    imgs: Vec<Img>,
    calls: Vec<Call>,
}

const DIMS_SMALL: [(usize, usize); 4] = [(2, 2), (4, 2), (8, 4), (64, 4)];
const DIMS_LARGE: [(usize, usize); 6] = [(256, 256), (384, 256), (448, 256), (258, 254), (512, 128), (128, 512)];
/// frame shapes for Yuv::new: pairs of equal area around the thresholds of the metadata heuristic
const CTOR_DIMS: [(usize, usize); 8] = [(480, 576), (576, 480), (1280, 480), (480, 1280), (720, 576), (576, 720), (640, 488), (488, 640)];

fn build_plan(seed: u64) -> Plan {
    let mut e = Expand(seed ^ 0x0DDE5);
    // ---- configs: a few bases, each with variants that differ in exactly one field
    let mut cfgs: Vec<YuvConfig> = Vec::new();
    for _ in 0..4 {
        let m = *e.pick(&WORKING_MC);
        let mut p = *e.pick(&SUP_CP);
        if p == CP::ST428 {
            p = CP::Tech3213;
        }
        let base = cfg(m, *e.pick(&SUP_TC), p, *e.pick(&[8u8, 10, 16, 16]), e.below(2) == 0, *e.pick(&SUBSAMPLINGS[..3]));
        cfgs.push(base);
        let mut v = base;
        v.full_range = !base.full_range;
        cfgs.push(v);
        let mut v = base;
        v.color_primaries = loop {
            let q = *e.pick(&SUP_CP);
            if q != CP::ST428 && q != base.color_primaries {
                break q;
            }
        };
        cfgs.push(v);
        let mut v = base;
        v.matrix_coefficients = *e.pick(&WORKING_MC);
        cfgs.push(v);
        let mut v = base;
        v.bit_depth = if base.bit_depth == 16 { 10 } else { 16 };
        cfgs.push(v);
        let mut v = base;
        v.transfer_characteristics = *e.pick(&SUP_TC);
        cfgs.push(v);
    }
    // the pair of primaries whose enum values differ by 16 (6 and 22) with a primaries-derived matrix
    let d = cfg(*e.pick(&[MC::Identity, MC::BT2020ConstantLuminance, MC::ST2085, MC::ICtCp]), TC::BT1886, CP::ST170M, 10, false, (0, 0));
    cfgs.push(d);
    let mut v = d;
    v.color_primaries = CP::Tech3213;
    cfgs.push(v);
    let n_specified = cfgs.len();
    // configs with Unspecified subsets (constructors and conversions into Yuv)
    for subset in 1..8u8 {
        let b = cfgs[e.below(n_specified as u64) as usize];
        let m = if STD_MC.contains(&b.matrix_coefficients) { b.matrix_coefficients } else { MC::ST170M };
        cfgs.push(cfg(
            if subset & 1 != 0 { MC::Unspecified } else { m },
            if subset & 4 != 0 { TC::Unspecified } else { b.transfer_characteristics },
            if subset & 2 != 0 { CP::Unspecified } else { b.color_primaries },
            *e.pick(&[8u8, 10]),
            e.below(2) == 0,
            (0, 0),
        ));
    }
    // ---- images: float images of several kinds and sizes, and Yuv images encoded from them
    let mut imgs: Vec<Img> = Vec::new();
    let kinds = [Kind::Rgb, Kind::Lin, Kind::Xyb, Kind::Hsl, Kind::Lin, Kind::Rgb];
    let mut dims: Vec<(usize, usize)> = DIMS_SMALL.to_vec();
    dims.extend_from_slice(&DIMS_LARGE);
    // two frames above 2^21 pixels (one of them above 2^22): caches behind size gates of "more than full HD"
    dims.push((1452, 1448));
    dims.push((2052, 2048));
    for (i, (w, h)) in dims.iter().enumerate() {
        for k in 0..2 {
            let kind = kinds[(i + k) % kinds.len()];
            let data: Vec<[f32; 3]> = (0..w * h)
                .map(|_| {
                    let mut p = [e.unit() as f32, e.unit() as f32, e.unit() as f32];
                    if kind == Kind::Hsl {
                        p[0] *= 359.0;
                    }
                    p
                })
                .collect();
            imgs.push(float_img(kind, data, *w, *h, TC::BT1886, CP::BT709));
        }
    }
    // Yuv sources (built before the measured sequence, identically in every worker)
    let nfloat = imgs.len();
    for i in 0..8 {
        let src = imgs[(i * 3) % nfloat].clone();
        let c = cfgs[e.below(n_specified as u64) as usize];
        let lin = match &src {
            Img::Lin(_) => Some(src.clone()),
            Img::Rgb(_) => apply(Edge::RgbToLin, &src, &Params { cfg: c }).ok(),
            Img::Xyb(_) => apply(Edge::XybToLin, &src, &Params { cfg: c }).ok(),
            Img::Hsl(_) => apply(Edge::HslToLin, &src, &Params { cfg: c }).ok(),
            _ => None,
        };
        if let Some(l) = lin {
            let (w, h) = l.dims();
            if w % 4 == 0 && h % 4 == 0 || (c.subsampling_x == 0 && c.subsampling_y == 0) {
                if let Ok(y) = apply(Edge::LinToYuv { u8_out: c.bit_depth == 8 }, &l, &Params { cfg: c }) {
                    // a twin with the same planes, relabelled with the other range: caches keyed on part of
                    // the config (depth without range, ...) confuse the two
                    let twin = match &y {
                        Img::Yuv8(v) => {
                            let mut c2 = v.config();
                            c2.full_range = !c2.full_range;
                            Yuv::new(super::hist::frame_of(v), c2).ok().map(Img::Yuv8)
                        }
                        Img::Yuv16(v) => {
                            let mut c2 = v.config();
                            c2.full_range = !c2.full_range;
                            Yuv::new(super::hist::frame_of(v), c2).ok().map(Img::Yuv16)
                        }
                        _ => None,
                    };
                    imgs.push(y);
                    if let Some(t) = twin {
                        imgs.push(t);
                    }
                }
            }
        }
    }
    // ---- the call list
    let mut calls = Vec::new();
    let ncalls = 420;
    for _ in 0..ncalls {
        if e.below(6) == 0 {
            let (w, h) = *e.pick(&CTOR_DIMS);
            calls.push(Call::YuvNew { w, h, cfg: n_specified + e.below((cfgs.len() - n_specified) as u64) as usize, u16_storage: e.below(2) == 0 });
        } else {
            // the four float images above 2^21 pixels (indices 20..24) are picked less often (cost)
            let mut img = e.below(imgs.len() as u64) as usize;
            if (20..24).contains(&img) && e.below(3) != 0 {
                img = e.below(20) as usize;
            }
            calls.push(Call::Convert { img, edge: e.next_u32() as u8, cfg: e.below(cfgs.len() as u64) as usize });
        }
    }
    // make sure related calls occur near each other in at least one order: repeat a few calls with one field changed
    let extra: Vec<Call> = calls
        .iter()
        .take(60)
        .map(|c| match c {
            Call::Convert { img, edge, cfg } => Call::Convert { img: *img, edge: *edge, cfg: (*cfg + 1) % cfgs.len() },
            Call::YuvNew { w, h, cfg, u16_storage } => Call::YuvNew { w: *h, h: *w, cfg: *cfg, u16_storage: *u16_storage },
        })
        .collect();
    calls.extend(extra);
    Plan { cfgs, imgs, calls }
}

fn hash_img(img: &Img) -> u64 {
    let mut h = std::collections::hash_map::DefaultHasher::new();
    img.dims().hash(&mut h);
    match img {
        Img::Yuv8(y) => {
            format!("{:?}", y.config()).hash(&mut h);
            yuv_samples(y).hash(&mut h);
        }
        Img::Yuv16(y) => {
            format!("{:?}", y.config()).hash(&mut h);
            yuv_samples(y).hash(&mut h);
        }
        Img::Rgb(r) => {
            format!("{:?}{:?}", r.transfer(), r.primaries()).hash(&mut h);
            for p in r.data() {
                [p[0].to_bits(), p[1].to_bits(), p[2].to_bits()].hash(&mut h);
            }
        }
        other => {
            for p in other.float_data().unwrap() {
                [p[0].to_bits(), p[1].to_bits(), p[2].to_bits()].hash(&mut h);
            }
        }
    }
    h.finish()
}

fn exec(plan: &Plan, c: &Call) -> u64 {
    let r = catch(|| match c {
        Call::Convert { img, edge, cfg } => {
            let src = &plan.imgs[*img % plan.imgs.len()];
            let edges = edges_from(src.kind());
            let e = edges[*edge as usize % edges.len()];
            let mut cf = plan.cfgs[*cfg % plan.cfgs.len()];
            // sizes that are not multiples of the subsampling are outside the encoders' domain
            let (w, h) = src.dims();
            if w % (1 << cf.subsampling_x) != 0 || h % (1 << cf.subsampling_y) != 0 {
                cf.subsampling_x = 0;
                cf.subsampling_y = 0;
            }
            match apply(e, src, &Params { cfg: cf }) {
                Ok(o) => hash_img(&o),
                Err(err) => 0xE000 + err as u64,
            }
        }
        Call::YuvNew { w, h, cfg, u16_storage } => {
            let cf = plan.cfgs[*cfg % plan.cfgs.len()];
            let mut cf = cf;
            cf.subsampling_x = 0;
            cf.subsampling_y = 0;
            let s = if *u16_storage {
                cf.bit_depth = cf.bit_depth.max(10);
                Yuv::<u16>::new(Frame { planes: [Plane::new(*w, *h, 0, 0, 0, 0), Plane::new(*w, *h, 0, 0, 0, 0), Plane::new(*w, *h, 0, 0, 0, 0)] }, cf).map(|y| format!("{:?}", y.config()))
            } else {
                cf.bit_depth = 8;
                Yuv::<u8>::new(Frame { planes: [Plane::new(*w, *h, 0, 0, 0, 0), Plane::new(*w, *h, 0, 0, 0, 0), Plane::new(*w, *h, 0, 0, 0, 0)] }, cf).map(|y| format!("{:?}", y.config()))
            };
            let mut hh = std::collections::hash_map::DefaultHasher::new();
            format!("{s:?}").hash(&mut hh);
            hh.finish()
        }
    });
    r.unwrap_or(0xDEAD_0000)
}

fn order(n: usize, seed: u64, perm: u8) -> Vec<usize> {
    let mut idx: Vec<usize> = (0..n).collect();
    match perm {
        0 => {}
        1 => idx.reverse(),
        _ => {
            let mut e = Expand(seed ^ (perm as u64) << 32);
            for i in (1..n).rev() {
                idx.swap(i, e.below(i as u64 + 1) as usize);
            }
        }
    }
    idx
}

/// worker entry: prints "<call index> <hash>" per call, in execution order
pub fn worker_main(seed: u64, perm: u8) -> i32 {
    let plan = build_plan(seed);
    let mut out = String::new();
    for i in order(plan.calls.len(), seed, perm) {
        let h = exec(&plan, &plan.calls[i]);
        out.push_str(&format!("{i} {h:016x}\n"));
    }
    print!("{out}");
    0
}

fn run_worker(seed: u64, perm: u8) -> Result<Vec<u64>, String> {
    let exe = std::env::current_exe().map_err(|e| e.to_string())?;
    let o = std::process::Command::new(exe)
        .args(["C11", "--order-worker", &seed.to_string(), &perm.to_string()])
        .env("VCHECK_CHILD", "1")
        .output()
        .map_err(|e| e.to_string())?;
    if !o.status.success() {
        return Err(format!("worker (seed {seed}, order {perm}) terminated with {:?}: {}", o.status, String::from_utf8_lossy(&o.stderr).chars().take(400).collect::<String>()));
    }
    let txt = String::from_utf8_lossy(&o.stdout);
    let mut v: Vec<(usize, u64)> = txt
        .lines()
        .filter_map(|l| {
            let mut it = l.split_whitespace();
            Some((it.next()?.parse().ok()?, u64::from_str_radix(it.next()?, 16).ok()?))
        })
        .collect();
    v.sort();
    Ok(v.into_iter().map(|(_, h)| h).collect())
}

pub fn check_seed(seed: u64, st: &mut Stats) -> Result<(), Violation> {
    let mk = |sig: &str, msg: String| Violation { signature: format!("C11:order:{sig}"), message: msg, case: json!({"prop":"C11","part":"order","seed":seed.to_string()}) };
    let base = run_worker(seed, 0).map_err(|e| mk("worker", e))?;
    for perm in [1u8, 2, 3] {
        let other = run_worker(seed, perm).map_err(|e| mk("worker", e))?;
        if other.len() != base.len() {
            return Err(mk("shape", format!("workers returned {} and {} results", base.len(), other.len())));
        }
        for (i, (a, b)) in base.iter().zip(&other).enumerate() {
            if a != b {
                let plan = build_plan(seed);
                return Err(mk(
                    "order-dependent",
                    format!(
                        "call #{i} {:?} gives a different result when the same list of {} calls is executed in another order (order {perm} vs as listed) in a fresh process: the library keeps state between calls",
                        plan.calls[i],
                        plan.calls.len()
                    ),
                ));
            }
        }
        st.comparisons += base.len() as u64;
    }
    st.evaluations += 1;
    st.nontrivial_by_construction += 1;
    st.class("order_differentials", 1);
    st.class("order_differential_calls", base.len() as u64 * 4);
    st.samples.push(json!({"part":"order","seed":seed.to_string(),"calls":base.len(),"orders":["as listed","reversed","shuffled","shuffled'"]}));
    Ok(())
}

pub fn run(ctx: &Ctx, st: &mut Stats) -> Vec<Violation> {
    let n: u64 = if ctx.quick() { 6 } else { 96 };
    let seeds: Vec<u64> = (0..n).map(|i| mix64(ctx.seed ^ (i << 16) ^ 0x0DDE)).collect();
    par_sweep(ctx, st, n, |lo, hi, st| {
        for i in lo..hi {
            if let Err(v) = check_seed(seeds[i as usize], st) {
                return Some(v);
            }
        }
        None
    })
}

pub fn replay(v: &Value) -> Result<(), String> {
    let seed: u64 = v.get("seed").and_then(|s| s.as_str()).and_then(|s| s.parse().ok()).ok_or("seed")?;
    check_seed(seed, &mut Stats::new()).map_err(|v| v.message)
}
