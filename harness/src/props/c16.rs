//! C16 The neutral axis and the black/white anchors survive every stage.

use crate::api::{cfg, cfg_json, frame444_pads};
use crate::engine::*;
use crate::oracle::{cp_name, mc_name, tc_name, STD_MC, SUP_CP, SUP_TC};
use serde_json::{json, Value};
use yuvxyb::{ColorPrimaries as CP, Hsl, LinearRgb, Pixel, Rgb, TransferCharacteristic as TC, Xyb, Yuv, YuvConfig};

use super::c03::{lib_apply, tolerance, Dir};
use super::c06::lib_convert;

fn decode_grey<T: Pixel>(c: &YuvConfig, lumas: &[u16]) -> Result<Vec<[f32; 3]>, String> {
    let half = 1u16 << (c.bit_depth - 1);
    let codes: Vec<[u16; 3]> = lumas.iter().map(|y| [*y, half, half]).collect();
    // two rows and unequal per-plane paddings when the ramp length allows it: neutrality must not depend on layout
    let (w, h) = if codes.len() % 2 == 0 { (codes.len() / 2, 2) } else { (codes.len(), 1) };
    // (paddings chosen so that the U and V strides really differ: 0 vs 40 crosses the 64-byte alignment)
    let pads = if c.bit_depth % 2 == 0 { [(0, 0), (0, 1), (40, 0)] } else { [(3, 0), (40, 0), (0, 1)] };
    let frame = frame444_pads::<T>(&codes, w, h, pads);
    let yuv = Yuv::<T>::new(frame, *c).map_err(|e| format!("Yuv::new: {e:?}"))?;
    Ok(Rgb::try_from(&yuv).map_err(|e| format!("decode: {e:?}"))?.into_data())
}

/// part (a): returns first violation
fn check_yuv_grey(c: &YuvConfig, u8s: bool, lumas: &[u16], st: &mut Stats) -> Result<(), Violation> {
    let mk = |msg: String, y: u16| Violation {
        signature: format!("C16:yuv-grey:{}:{}", mc_name(c.matrix_coefficients), if c.full_range { "full" } else { "limited" }),
        message: msg,
        case: json!({"prop":"C16","part":"yuv","cfg":cfg_json(c),"storage": if u8s {"u8"} else {"u16"},"luma":[y]}),
    };
    let rgb = match catch(|| if u8s { decode_grey::<u8>(c, lumas) } else { decode_grey::<u16>(c, lumas) }) {
        Ok(Ok(r)) => r,
        Ok(Err(e)) => return Err(mk(e, lumas[0])),
        Err(p) => return Err(mk(format!("panic: {p}"), lumas[0])),
    };
    let k = 1u32 << (c.bit_depth - 8);
    let (black, white) = if c.full_range { (0u32, (1u32 << c.bit_depth) - 1) } else { (16 * k, 235 * k) };
    for (i, y) in lumas.iter().enumerate() {
        let p = rgb[i];
        let mx = p[0].max(p[1]).max(p[2]);
        let mn = p[0].min(p[1]).min(p[2]);
        let spread = f64::from(mx) - f64::from(mn);
        if !(spread <= 5e-7) {
            return Err(mk(format!("grey code Y={y} (chroma 2^(n-1)) decodes to {:?}: spread {:e} > 5e-7, cfg {}", p, spread, cfg_json(c)), *y));
        }
        st.max("max_grey_spread", spread);
        if *y as u32 == black && p != [0.0, 0.0, 0.0] {
            return Err(mk(format!("nominal black Y={y} decodes to {:?}, not exactly 0, cfg {}", p, cfg_json(c)), *y));
        }
        if *y as u32 == white {
            for j in 0..3 {
                if !((f64::from(p[j]) - 1.0).abs() <= 1e-6) {
                    return Err(mk(format!("nominal white Y={y} decodes to {:?}, not 1 within 1e-6, cfg {}", p, cfg_json(c)), *y));
                }
            }
            st.class("white_anchor_checked", 1);
        }
        if *y as u32 == black {
            st.class("black_anchor_checked", 1);
        }
    }
    st.comparisons += lumas.len() as u64;
    Ok(())
}

/// part (a2): grey pixels whose left neighbour is a coloured pixel related to them: the grey triple with +-2^a on
/// one plane and +-2^b on another (or on one plane only). Only the grey positions are judged.
fn check_grey_after_neighbours(c: &YuvConfig, u8s: bool, st: &mut Stats) -> Result<(), Violation> {
    let d = c.bit_depth as u32;
    let max = (1i64 << d) - 1;
    let half = 1i64 << (d - 1);
    let k = 1i64 << (d - 8);
    let (black, white) = if c.full_range { (0i64, max) } else { (16 * k, 235 * k) };
    let greys = [black, white, half, black + 1, white - 1, max / 3, (2 * max) / 3, (max / 7) * 5];
    let mut codes: Vec<[u16; 3]> = Vec::new();
    for g in greys {
        let base = [g, half, half];
        let mut push = |p: [i64; 3]| {
            if p.iter().all(|v| (0..=max).contains(v)) && p != base {
                // (an unrelated pixel first: otherwise the neighbour itself follows the same grey of the previous triple)
                codes.push([(max - g) as u16, (half + 3) as u16, (half - 5) as u16]);
                codes.push([p[0] as u16, p[1] as u16, p[2] as u16]);
                codes.push([g as u16, half as u16, half as u16]);
            }
        };
        for i in 0..3 {
            for a in 0..d {
                for sa in [1i64, -1] {
                    let mut p = base;
                    p[i] += sa << a;
                    push(p);
                    for j in (i + 1)..3 {
                        for b in 0..d {
                            for sb in [1i64, -1] {
                                let mut q = p;
                                q[j] += sb << b;
                                push(q);
                            }
                        }
                    }
                }
            }
        }
    }
    let mk = |msg: String, at: usize| Violation {
        signature: format!("C16:yuv-grey-after-neighbour:{}:{}", mc_name(c.matrix_coefficients), if c.full_range { "full" } else { "limited" }),
        message: msg,
        case: json!({"prop":"C16","part":"yuv-pairs","cfg":cfg_json(c),"storage": if u8s {"u8"} else {"u16"},"codes":[codes[at - 1], codes[at]]}),
    };
    let n = codes.len();
    let dec = |codes: &[[u16; 3]]| -> Result<Vec<[f32; 3]>, String> {
        fn go<T: Pixel>(c: &YuvConfig, codes: &[[u16; 3]]) -> Result<Vec<[f32; 3]>, String> {
            let yuv = Yuv::<T>::new(frame444_pads::<T>(codes, codes.len(), 1, [(0, 0); 3]), *c).map_err(|e| format!("Yuv::new: {e:?}"))?;
            Ok(Rgb::try_from(&yuv).map_err(|e| format!("decode: {e:?}"))?.into_data())
        }
        match catch(|| if u8s { go::<u8>(c, codes) } else { go::<u16>(c, codes) }) {
            Ok(r) => r,
            Err(p) => Err(format!("panic: {p}")),
        }
    };
    let rgb = dec(&codes).map_err(|e| mk(e, 1))?;
    for i in (2..n).step_by(3) {
        let p = rgb[i];
        let spread = f64::from(p[0].max(p[1]).max(p[2])) - f64::from(p[0].min(p[1]).min(p[2]));
        let y = codes[i][0] as i64;
        let bad_black = y == black && p != [0.0, 0.0, 0.0];
        let bad_white = y == white && (0..3).any(|j| !((f64::from(p[j]) - 1.0).abs() <= 1e-6));
        if !(spread <= 5e-7) || bad_black || bad_white {
            return Err(mk(format!("grey code {:?} right after the pixel {:?} decodes to {:?} (spread {:e}; grey within 5e-7, nominal black exactly 0 and nominal white within 1e-6 are required), cfg {}", codes[i], codes[i - 1], p, spread, cfg_json(c)), i));
        }
    }
    st.comparisons += (n / 3) as u64;
    Ok(())
}

fn replay_pairs(v: &Value) -> Result<(), String> {
    let c = crate::api::cfg_from_json(v.get("cfg").ok_or("cfg")?).ok_or("cfg")?;
    let u8s = v.get("storage").and_then(|s| s.as_str()) == Some("u8");
    check_grey_after_neighbours(&c, u8s, &mut Stats::new()).map_err(|v| v.message)
}

/// part (a3): a neutral subsampled frame decoded right after a coloured frame of the same width (other height) on the
/// same thread: whatever the previous decode left behind (row buffers, tables), grey must stay grey
fn check_grey_after_frame(c: &YuvConfig, u8s: bool, w: usize, h_prev: usize, h: usize, st: &mut Stats) -> Result<(), Violation> {
    let mk = |msg: String| Violation {
        signature: format!("C16:yuv-grey-after-frame:{}{}", c.subsampling_x, c.subsampling_y),
        message: msg,
        case: json!({"prop":"C16","part":"yuv-after-frame","cfg":cfg_json(c),"storage": if u8s {"u8"} else {"u16"},"w":w,"h_prev":h_prev,"h":h}),
    };
    let d = c.bit_depth as u32;
    let max = (1u32 << d) - 1;
    let half = (1u32 << (d - 1)) as u16;
    let ss = (c.subsampling_x, c.subsampling_y);
    let planes = |h: usize, grey: bool| -> [Vec<u16>; 3] {
        let (cw, ch) = (w >> ss.0, h >> ss.1);
        let y: Vec<u16> = (0..w * h).map(|i| ((i as u32 * 7919 + 13) % (max + 1)) as u16).collect();
        let u: Vec<u16> = (0..cw * ch).map(|i| if grey { half } else { ((i as u32 * 104729 + 7) % (max + 1)) as u16 }).collect();
        let v: Vec<u16> = (0..cw * ch).map(|i| if grey { half } else { ((i as u32 * 1299709 + 3) % (max + 1)) as u16 }).collect();
        [y, u, v]
    };
    fn go<T: Pixel>(c: &YuvConfig, w: usize, h: usize, p: &[Vec<u16>; 3]) -> Result<Vec<[f32; 3]>, String> {
        let f = crate::conv::yuv_frame::<T>(w, h, (c.subsampling_x, c.subsampling_y), [(0, 0); 3], p, 0);
        let yuv = Yuv::<T>::new(f, *c).map_err(|e| format!("Yuv::new: {e:?}"))?;
        Ok(Rgb::try_from(&yuv).map_err(|e| format!("decode: {e:?}"))?.into_data())
    }
    let run = |h: usize, grey: bool| -> Result<Vec<[f32; 3]>, String> {
        let p = planes(h, grey);
        match catch(|| if u8s { go::<u8>(c, w, h, &p) } else { go::<u16>(c, w, h, &p) }) {
            Ok(r) => r,
            Err(pn) => Err(format!("panic: {pn}")),
        }
    };
    run(h_prev, false).map_err(|e| mk(format!("the coloured frame failed: {e}")))?;
    let rgb = run(h, true).map_err(mk)?;
    for (i, p) in rgb.iter().enumerate() {
        let spread = f64::from(p[0].max(p[1]).max(p[2])) - f64::from(p[0].min(p[1]).min(p[2]));
        if !(spread <= 5e-7) {
            return Err(mk(format!("pixel ({},{}) of a neutral {w}x{h} frame (chroma 2^(n-1), subsampling {:?}) decoded right after a coloured {w}x{h_prev} frame on the same thread is {:?}: spread {:e} > 5e-7; cfg {}", i % w, i / w, ss, p, spread, cfg_json(c))));
        }
    }
    st.comparisons += rgb.len() as u64;
    Ok(())
}

/// part (a4), one history (the caller provides a fresh thread)
fn after_error_once(d1: u8, r1: bool, d2: u8, r2: bool, ek: u8, mi: usize) -> Result<u64, Violation> {
    let mc = STD_MC[mi % 7];
    let mut local = Stats::new();
    // 1. a valid decode at (d1, r1)
    let c1 = cfg(mc, TC::BT1886, CP::BT709, d1, r1, (0, 0));
    let l1: Vec<u16> = (0..64u32).map(|i| (i * 3 % (1u32 << d1)) as u16).collect();
    let _ = catch(|| decode_grey::<u16>(&c1, &l1));
    // 2. a decode at (d2, r2) that fails
    let bad = if ek == 0 { cfg(yuvxyb::MatrixCoefficients::Reserved, TC::BT1886, CP::BT709, d2, r2, (0, 0)) } else { cfg(yuvxyb::MatrixCoefficients::ChromaticityDerivedNonConstantLuminance, TC::BT1886, CP::Reserved0, d2, r2, (0, 0)) };
    let l2: Vec<u16> = (0..64u32).map(|i| (i * 5 % (1u32 << d2)) as u16).collect();
    let _ = catch(|| decode_grey::<u16>(&bad, &l2));
    // 3. the neutral ramp at (d2, r2)
    let c2 = cfg(mc, TC::BT1886, CP::BT709, d2, r2, (0, 0));
    let max = (1u32 << d2) - 1;
    let k = 1u32 << (d2 - 8);
    let mut lumas: Vec<u16> = (0..=255u32).map(|i| (i * (max / 255)) as u16).collect();
    lumas.extend([0u16, max as u16, (16 * k) as u16, (235 * k) as u16]);
    check_yuv_grey(&c2, false, &lumas, &mut local).map(|_| local.comparisons)
}

fn replay_after_error(v: &Value) -> Result<(), String> {
    let g = |k: &str| v.get(k).and_then(|x| x.as_u64()).ok_or_else(|| k.to_string());
    let b = |k: &str| v.get(k).and_then(|x| x.as_bool()).unwrap_or(false);
    let (d1, d2, ek, m) = (g("d1")? as u8, g("d2")? as u8, g("ek")? as u8, g("m")? as usize);
    let (r1, r2) = (b("r1"), b("r2"));
    std::thread::spawn(move || after_error_once(d1, r1, d2, r2, ek, m).map(|_| ()).map_err(|v| v.message)).join().map_err(|_| "panicked".to_string())?
}

fn replay_after_frame(v: &Value) -> Result<(), String> {
    let c = crate::api::cfg_from_json(v.get("cfg").ok_or("cfg")?).ok_or("cfg")?;
    let u8s = v.get("storage").and_then(|s| s.as_str()) == Some("u8");
    let g = |k: &str| v.get(k).and_then(|x| x.as_u64()).map(|x| x as usize).ok_or_else(|| k.to_string());
    let (w, hp, h) = (g("w")?, g("h_prev")?, g("h")?);
    std::thread::spawn(move || check_grey_after_frame(&c, u8s, w, hp, h, &mut Stats::new()).map_err(|v| v.message)).join().map_err(|_| "panicked".to_string())?
}

fn greys_px(vals: &[f32]) -> Vec<[f32; 3]> {
    vals.iter().map(|g| [*g, *g, *g]).collect()
}

/// parts (c),(d),(e) on a block of linear grey levels
fn check_linear_greys(vals: &[f32], st: &mut Stats) -> Result<(), Violation> {
    let mk = |part: &str, msg: String, g: f32| Violation {
        signature: format!("C16:{part}"),
        message: msg,
        case: json!({"prop":"C16","part":"linear","grey":[f2j(g)]}),
    };
    let px = greys_px(vals);
    let n = px.len();
    // XYB: the greys are embedded in an image that also holds coloured pixels and repeats of earlier grey
    // levels (grey, colour, same grey again, ...); only the grey positions are judged
    let mut mixed: Vec<[f32; 3]> = Vec::with_capacity(3 * n);
    for (i, p) in px.iter().enumerate() {
        mixed.push(*p);
        mixed.push([0.9 - 0.8 * (i % 7) as f32 / 7.0, 0.1 + 0.1 * (i % 5) as f32, (i % 3) as f32 * 0.45]);
        mixed.push(*p);
    }
    let xyb_m = match catch(|| LinearRgb::new(mixed.clone(), 3 * n, 1).map(Xyb::from)) {
        Ok(Ok(x)) => x,
        other => return Err(mk("xyb", format!("conversion failed: {:?}", other.map(|r| r.map(|_| ()))), vals[0])),
    };
    for (i, g) in vals.iter().enumerate() {
        for k in [0usize, 2] {
            let p = xyb_m.data()[3 * i + k];
            if !(f64::from(p[0]).abs() <= 1e-6) || !((f64::from(p[1]) - f64::from(p[2])).abs() <= 1e-6) {
                return Err(mk("xyb-grey", format!("linear grey {:e} inside a mixed image (position {}) -> XYB {:?}: |X| or |Y-B| > 1e-6", g, 3 * i + k, p), *g));
            }
        }
    }
    let xyb = match catch(|| LinearRgb::new(px.clone(), n, 1).map(Xyb::from)) {
        Ok(Ok(x)) => x,
        other => return Err(mk("xyb", format!("conversion failed: {:?}", other.map(|r| r.map(|_| ()))), vals[0])),
    };
    for (i, g) in vals.iter().enumerate() {
        let p = xyb.data()[i];
        if !(f64::from(p[0]).abs() <= 1e-6) {
            return Err(mk("xyb-grey", format!("linear grey {:e} -> XYB {:?}: |X| > 1e-6", g, p), *g));
        }
        if !((f64::from(p[1]) - f64::from(p[2])).abs() <= 1e-6) {
            return Err(mk("xyb-grey", format!("linear grey {:e} -> XYB {:?}: |Y-B| > 1e-6", g, p), *g));
        }
        st.max("max_xyb_x", f64::from(p[0]).abs());
        st.max("max_xyb_y_minus_b", (f64::from(p[1]) - f64::from(p[2])).abs());
        if *g == 0.0 && !p.iter().all(|c| f64::from(*c).abs() <= 1e-6) {
            return Err(mk("xyb-black", format!("black -> XYB {:?}, not (0,0,0) within 1e-6", p), *g));
        }
    }
    // HSL
    let hsl = match catch(|| LinearRgb::new(px.clone(), n, 1).map(Hsl::from)) {
        Ok(Ok(x)) => x,
        other => return Err(mk("hsl", format!("conversion failed: {:?}", other.map(|r| r.map(|_| ()))), vals[0])),
    };
    for (i, g) in vals.iter().enumerate() {
        let p = hsl.data()[i];
        if p[0] != 0.0 || p[1] != 0.0 || !((f64::from(p[2]) - f64::from(*g)).abs() <= 1e-6) {
            return Err(mk("hsl-grey", format!("linear grey {:e} -> HSL {:?}: expected H=0, S=0, L=grey", g, p), *g));
        }
    }
    // primaries: greys stay grey
    for p in SUP_CP {
        for to_709 in [true, false] {
            let out = match catch(|| lib_convert(p, to_709, &px, n, 1)) {
                Ok(Ok(o)) => o,
                other => return Err(mk("primaries", format!("{} conversion failed: {:?}", cp_name(p), other.map(|r| r.map(|_| ()))), vals[0])),
            };
            for (i, g) in vals.iter().enumerate() {
                let q = out[i];
                let mx = q[0].max(q[1]).max(q[2]);
                let mn = q[0].min(q[1]).min(q[2]);
                let tol = 1e-5 * f64::from(mx.abs().max(mn.abs())).max(1.0);
                let spread = f64::from(mx) - f64::from(mn);
                if !(spread <= tol) {
                    return Err(Violation {
                        signature: format!("C16:primaries-grey:{}", cp_name(p)),
                        message: format!("grey {:e} through {} {} becomes {:?} (spread {:e} > {:e})", g, cp_name(p), if to_709 { "->BT709" } else { "<-BT709" }, q, spread, tol),
                        case: json!({"prop":"C16","part":"linear","grey":[f2j(*g)]}),
                    });
                }
                st.max("max_primaries_grey_spread", spread);
            }
        }
    }
    st.comparisons += vals.len() as u64 * 24;
    Ok(())
}

fn check_curve_anchors(st: &mut Stats) -> Result<(), Violation> {
    for t in SUP_TC {
        if matches!(t, TC::Logarithmic100 | TC::Logarithmic316) {
            continue;
        }
        for d in [Dir::ToLinear, Dir::ToGamma] {
            let mk = |msg: String| Violation {
                signature: format!("C16:curve-anchor:{}", tc_name(t)),
                message: msg,
                case: json!({"prop":"C16","part":"curve","transfer":tc_name(t),"dir": if d == Dir::ToLinear {"to_linear"} else {"to_gamma"}}),
            };
            let out = match catch(|| lib_apply(t, d, &[0.0, 1.0, 0.0])) {
                Ok(Ok(o)) => o,
                other => return Err(mk(format!("failed: {other:?}"))),
            };
            if !(f64::from(out[0]).abs() <= 1e-6) {
                return Err(mk(format!("{} {:?} maps 0 to {:e} (not within 1e-6 of 0)", tc_name(t), d, out[0])));
            }
            let tol = tolerance(t, d);
            if !((f64::from(out[1]) - 1.0).abs() < tol) {
                return Err(mk(format!("{} {:?} maps 1 to {:e} (not within {:e} of 1)", tc_name(t), d, out[1], tol)));
            }
            st.max("max_curve_one_err", (f64::from(out[1]) - 1.0).abs());
            st.comparisons += 2;
            st.evaluations += 1;
            st.nontrivial_by_construction += 1;
            st.class("curve_anchor_pairs", 1);
        }
    }
    Ok(())
}

pub fn run(ctx: &Ctx, st: &mut Stats) -> Vec<Violation> {
    let mut out = Vec::new();
    if let Err(v) = check_curve_anchors(st) {
        out.push(v);
        return out;
    }
    // (a) every luma code at every depth x 7 matrices x 2 ranges (x both storages at 8 bit)
    let mut jobs = Vec::new();
    for mc in STD_MC {
        for full in [false, true] {
            for depth in 8u8..=16 {
                jobs.push((mc, full, depth, false));
                if depth == 8 {
                    jobs.push((mc, full, depth, true));
                }
            }
        }
    }
    out.extend(par_sweep(ctx, st, jobs.len() as u64, |lo, hi, st| {
        for j in lo..hi {
            let (mc, full, depth, u8s) = jobs[j as usize];
            let c = cfg(mc, TC::BT1886, CP::BT709, depth, full, (0, 0));
            let lumas: Vec<u16> = (0..=((1u32 << depth) - 1)).map(|y| y as u16).collect();
            if let Err(v) = check_yuv_grey(&c, u8s, &lumas, st) {
                return Some(v);
            }
            st.evaluations += 1;
            st.nontrivial_by_construction += 1;
            st.class("yuv_grey_ramps", 1);
            if j % 37 == 0 {
                st.samples.push(json!({"part":"yuv","cfg":cfg_json(&c),"luma":"0..=2^n-1, chroma 2^(n-1)"}));
            }
        }
        None
    }));
    st.exhaustive_parts.push("every luma code at every depth 8..16 (130,816 codes) x 7 matrices x 2 ranges with neutral chroma".into());
    if !out.is_empty() {
        return out;
    }
    // (a2) grey pixels right after related coloured pixels, same job list
    out.extend(par_sweep(ctx, st, jobs.len() as u64, |lo, hi, st| {
        for j in lo..hi {
            let (mc, full, depth, u8s) = jobs[j as usize];
            let c = cfg(mc, TC::BT1886, CP::BT709, depth, full, (0, 0));
            if let Err(v) = check_grey_after_neighbours(&c, u8s, st) {
                return Some(v);
            }
            st.evaluations += 1;
            st.nontrivial_by_construction += 1;
            st.class("grey_after_related_neighbour_images", 1);
        }
        None
    }));
    if !out.is_empty() {
        return out;
    }
    // (a3) neutral subsampled frames right after coloured frames of the same width, each history on a fresh thread
    {
        let mut hj = Vec::new();
        for ss in [(1u8, 1u8), (0, 1), (1, 0), (2, 2), (2, 0)] {
            for w in [128usize, 256, 136, 64] {
                for (hp, h) in [(2usize, 4usize), (4, 4), (4, 8), (2, 2), (8, 4), (4, 2)] {
                    for (depth, u8s) in [(8u8, true), (10, false)] {
                        if hp % (1 << ss.1) == 0 && h % (1 << ss.1) == 0 {
                            hj.push((ss, w, hp, h, depth, u8s));
                        }
                    }
                }
            }
        }
        out.extend(par_sweep(ctx, st, hj.len() as u64, |lo, hi, st| {
            for j in lo..hi {
                let (ss, w, hp, h, depth, u8s) = hj[j as usize];
                let c = cfg(STD_MC[(j % 7) as usize], TC::BT1886, CP::BT709, depth, j % 2 == 0, ss);
                let r = std::thread::scope(|sc| {
                    sc.spawn(|| {
                        let mut local = Stats::new();
                        check_grey_after_frame(&c, u8s, w, hp, h, &mut local).map(|_| local.comparisons)
                    })
                    .join()
                });
                match r {
                    Ok(Ok(n)) => st.comparisons += n,
                    Ok(Err(v)) => return Some(v),
                    Err(_) => return Some(Violation { signature: "C16:panic".into(), message: "grey-after-frame history panicked".into(), case: json!({"prop":"C16"}) }),
                }
                st.evaluations += 1;
                st.nontrivial_by_construction += 1;
                st.class("grey_frame_after_coloured_frame_histories", 1);
            }
            None
        }));
    }
    if !out.is_empty() {
        return out;
    }
    // (a4) a neutral ramp decoded after a valid decode at another (depth, range) and a *failing* decode (reserved matrix,
    // or a primaries-derived matrix with unsupported primaries) at its own (depth, range), on a fresh thread: state that a
    // failed call left half-updated must not reach the next one
    {
        let combos: Vec<(u8, bool)> = vec![(8, false), (8, true), (10, false), (10, true), (12, false), (16, true)];
        let mut hj = Vec::new();
        for a in &combos {
            for b in &combos {
                if a != b {
                    for ek in 0..2u8 {
                        hj.push((*a, *b, ek));
                    }
                }
            }
        }
        out.extend(par_sweep(ctx, st, hj.len() as u64, |lo, hi, st| {
            for j in lo..hi {
                let ((d1, r1), (d2, r2), ek) = hj[j as usize];
                let r = std::thread::scope(|sc| sc.spawn(|| after_error_once(d1, r1, d2, r2, ek, (j % 7) as usize)).join());
                match r {
                    Ok(Ok(n)) => st.comparisons += n,
                    Ok(Err(mut v)) => {
                        v.message = format!("{} [decoded right after a valid decode at depth {d1} / full {r1} and a failing decode at depth {d2} / full {r2} on the same thread]", v.message);
                        v.case = json!({"prop":"C16","part":"yuv-after-error","d1":d1,"r1":r1,"d2":d2,"r2":r2,"ek":ek,"m":j % 7});
                        return Some(v);
                    }
                    Err(_) => return Some(Violation { signature: "C16:panic".into(), message: "history panicked".into(), case: json!({"prop":"C16"}) }),
                }
                st.evaluations += 1;
                st.nontrivial_by_construction += 1;
                st.class("grey_ramp_after_failed_decode_histories", 1);
            }
            None
        }));
    }
    // real-size neutral frames (above 2^21 pixels), the two ranges of a depth decoded back to back on one
    // thread in both orders: black exactly 0, white 1, greys grey, whatever was decoded before
    let big: Vec<(usize, usize)> = if ctx.quick() { vec![(1449, 1449), (2897, 2897)] } else { vec![(1449, 1449), (2049, 2049), (2897, 2897), (3841, 2161), (4097, 4097)] };
    // (sequentially, on this thread: the frames of one depth must really follow each other)
    let seq = Ctx { id: ctx.id.clone(), tier: ctx.tier, seed: ctx.seed, threads: 1, known_open: vec![], build: ctx.build.clone(), light: ctx.light };
    out.extend(par_sweep(&seq, st, 1, |_, _, st| {
        for j in 0..big.len() as u64 * 3 {
            let (w, h) = big[(j / 3) as usize];
            let (depth, u8s) = [(8u8, true), (10, false), (16, false)][(j % 3) as usize];
            let n = w * h;
            let maxc = (1u32 << depth) - 1;
            // the starting range alternates with the depth (a process-wide cache keeps what came first)
            let order = if j % 2 == 0 { [true, false, true, false] } else { [false, true, false, true] };
            for full in order {
                let c = cfg(STD_MC[(j % 7) as usize], TC::BT1886, CP::BT709, depth, full, (0, 0));
                // the ramp repeated over the frame, black and white codes included
                let k = 1u32 << (depth - 8);
                let (black, white) = if full { (0u32, maxc) } else { (16 * k, 235 * k) };
                let lumas: Vec<u16> = (0..n).map(|i| [black, white, (i as u32 * 7919) % (maxc + 1)][i % 3] as u16).collect();
                let lumas = if n % 2 == 1 { lumas } else { lumas };
                if let Err(v) = check_yuv_grey(&c, u8s, &lumas, st) {
                    return Some(v);
                }
                st.evaluations += 1;
                st.nontrivial_by_construction += 1;
                st.class("large_grey_frames", 1);
            }
        }
        None
    }));
    if !out.is_empty() {
        return out;
    }
    // real-size linear grey images through XYB / HSL / primaries
    out.extend(par_sweep(ctx, st, big.len() as u64, |lo, hi, st| {
        for j in lo..hi {
            let (w, h) = big[j as usize];
            let n = w * h;
            let vals: Vec<f32> = (0..n).map(|i| ((i * 2654435761usize) % 1_000_003) as f32 / 1_000_003.0).collect();
            if let Err(v) = check_linear_greys(&vals, st) {
                return Some(v);
            }
            st.evaluations += 1;
            st.nontrivial_by_construction += 1;
            st.class("large_linear_grey_images", 1);
        }
        None
    }));
    if !out.is_empty() {
        return out;
    }
    if !out.is_empty() {
        return out;
    }
    // (c)(d)(e) linear grey levels: quick 2^20 levels k/2^20 plus strided bit patterns; thorough every f32 in [0,1]
    let one = 1.0f32.to_bits() as u64;
    let block = 1u64 << 14;
    if ctx.quick() {
        let total = (1u64 << 20) + 1;
        out.extend(par_sweep(ctx, st, (total + block - 1) / block, |lo, hi, st| {
            for b in lo..hi {
                let vals: Vec<f32> = (b * block..((b + 1) * block).min(total)).map(|i| (i as f64 / (1u64 << 20) as f64) as f32).collect();
                if let Err(v) = check_linear_greys(&vals, st) {
                    return Some(v);
                }
                st.evaluations += 1;
                st.nontrivial_by_construction += 1;
                st.class("linear_grey_blocks", 1);
                if b % 16 == 0 {
                    st.samples.push(json!({"part":"linear","grey_from":f2j(vals[0]),"grey_to":f2j(*vals.last().unwrap()),"n":vals.len()}));
                }
            }
            None
        }));
        st.exhaustive_parts.push("2^20+1 linear grey levels k/2^20 through XYB, HSL and the 22 primaries conversions".into());
        // plus bit-pattern stride (log-dense near black)
        let stride = 4099u64;
        let count = one / stride + 1;
        let off = ctx.seed % stride;
        out.extend(par_sweep(ctx, st, (count + block - 1) / block, |lo, hi, st| {
            for b in lo..hi {
                let vals: Vec<f32> = (b * block..((b + 1) * block).min(count)).map(|i| f32::from_bits((i * stride + off).min(one) as u32)).collect();
                if let Err(v) = check_linear_greys(&vals, st) {
                    return Some(v);
                }
                st.evaluations += 1;
                st.nontrivial_by_construction += 1;
                st.class("linear_grey_blocks_bitpattern", 1);
            }
            None
        }));
    } else {
        let count = one + 1;
        out.extend(par_sweep(ctx, st, (count + block - 1) / block, |lo, hi, st| {
            for b in lo..hi {
                let vals: Vec<f32> = (b * block..((b + 1) * block).min(count)).map(|i| f32::from_bits(i as u32)).collect();
                if let Err(v) = check_linear_greys(&vals, st) {
                    return Some(v);
                }
                st.evaluations += 1;
                st.nontrivial_by_construction += 1;
                st.class("linear_grey_blocks", 1);
                if b % 4096 == 0 {
                    st.samples.push(json!({"part":"linear","grey_from":f2j(vals[0]),"grey_to":f2j(*vals.last().unwrap()),"n":vals.len()}));
                }
            }
            None
        }));
        st.exhaustive_parts.push("every f32 in [0,1] as linear grey level through XYB, HSL and the 22 primaries conversions".into());
    }
    out
}

pub fn replay(v: &Value) -> Result<(), String> {
    let mut st = Stats::new();
    match v.get("part").and_then(|p| p.as_str()) {
        Some("yuv") => {
            let c = crate::api::cfg_from_json(v.get("cfg").ok_or("cfg")?).ok_or("bad cfg")?;
            let lumas: Vec<u16> = serde_json::from_value(v.get("luma").ok_or("luma")?.clone()).map_err(|e| e.to_string())?;
            check_yuv_grey(&c, v.get("storage").and_then(|s| s.as_str()) == Some("u8"), &lumas, &mut st).map_err(|v| v.message)
        }
        Some("yuv-pairs") => replay_pairs(v),
        Some("yuv-after-frame") => replay_after_frame(v),
        Some("yuv-after-error") => replay_after_error(v),
        Some("linear") => {
            let g: Vec<f32> = v.get("grey").and_then(|g| g.as_array()).ok_or("grey")?.iter().filter_map(j2f).collect();
            check_linear_greys(&g, &mut st).map_err(|v| v.message)
        }
        _ => check_curve_anchors(&mut st).map_err(|v| v.message),
    }
}

pub const RULE: &str = "enumeration: (a) every luma code at every depth 8..16 x 7 matrices x 2 ranges (u8 and u16 at 8 bit) with chroma 2^(n-1): RGB spread <= 5e-7, nominal black exactly 0, nominal white within 1e-6; (a2) the same for grey pixels placed right after a related coloured pixel (the grey triple with +-2^a on one plane and +-2^b on another, all a, b, planes and signs; 8 grey levels incl. black and white per config); (a3) neutral 4:2:0 / 4:4:0 / 4:2:2 / 4:1:0 / 4:1:1 frames of width 64..256 decoded right after a coloured frame of the same width and another height on the same (fresh) thread; (a4) a neutral ramp decoded after a valid decode at another (depth, range) and a failing decode at its own, on a fresh thread; (b) the 12 non-log curves x 2 directions at 0 (within 1e-6) and 1 (within the C03 budget); (c-e) linear grey levels (quick: 2^20+1 levels k/2^20 and every 4099th f32 bit pattern of [0,1]; thorough: every f32 in [0,1]) through XYB (|X|, |Y-B| <= 1e-6, black -> 0; both as pure grey ramps and embedded in images with coloured pixels and repeated grey levels), HSL (H=0, S=0, L=grey) and the 22 primaries conversions (spread <= 1e-5*max(1,|v|)); plus real-size neutral frames and linear grey images (above 2^21 and 2^23 pixels; thorough: also above 2^22, UHD+1 and above 2^24), the two ranges of a depth decoded back to back; a case = one ramp / one block of grey levels / one frame; all cases are distinct by construction and all are non-trivial (they exercise the neutral axis, which is the subject of the property)";
