//! Shared machinery: run context, statistics/evidence, proptest driver, exhaustive sweeps,
//! replay files, known findings.

use proptest::strategy::{BoxedStrategy, ValueTree};
use proptest::test_runner::{Config, RngSeed, TestCaseError, TestError, TestRunner};
use serde_json::{json, Value};
use std::collections::{BTreeMap, HashSet};
use std::hash::{Hash, Hasher};
use std::sync::atomic::{AtomicBool, Ordering};
use std::sync::Mutex;

#[derive(Clone, Copy, PartialEq, Eq, Debug)]
pub enum Tier {
    Quick,
    Thorough,
}

pub struct Ctx {
    pub id: String,
    pub tier: Tier,
    pub seed: u64,
    pub threads: usize,
    pub known_open: Vec<(String, String)>, // (signature, what)
    /// name of the build configuration this binary was compiled as (fast, exact, fast-fma, ...)
    pub build: String,
    /// reduced workload (used when a suite runs as a sub-suite of C20 in several build configurations)
    pub light: bool,
}

impl Ctx {
    /// number of generated cases for a tier; the light mode runs a fifth of the quick count
    pub fn cases(&self, q: u32, t: u32) -> u32 {
        if self.quick() {
            if self.light {
                (q / 5).max(1)
            } else {
                q
            }
        } else {
            t
        }
    }
    pub fn quick(&self) -> bool {
        self.tier == Tier::Quick
    }
    pub fn is_known(&self, sig: &str) -> bool {
        self.known_open.iter().any(|(s, _)| s == sig)
    }
    /// pick by tier
    pub fn pick<T>(&self, q: T, t: T) -> T {
        if self.quick() {
            q
        } else {
            t
        }
    }
    pub fn fastmath(&self) -> bool {
        cfg!(feature = "fastmath")
    }
}

#[derive(Debug, Clone)]
pub struct Violation {
    /// coarse, stable identity of *what* fails (used for known findings)
    pub signature: String,
    pub message: String,
    /// minimal reproduction, replayable through `vcheck <ID> --replay`
    pub case: Value,
}

const DISTINCT_CAP: usize = 4_000_000;

#[derive(Default)]
pub struct Stats {
    pub evaluations: u64,
    /// elementary oracle comparisons (pixels, values); informational
    pub comparisons: u64,
    pub nontrivial_hashes: HashSet<u64>,
    /// non-trivial cases that are distinct by construction (enumerations)
    pub nontrivial_by_construction: u64,
    pub nontrivial_saturated: bool,
    pub classes: BTreeMap<String, u64>,
    pub samples: Vec<Value>,
    pub maxima: BTreeMap<String, f64>,
    pub notes: Vec<String>,
    pub exhaustive_parts: Vec<String>,
    pub sample_budget: usize,
}

impl Stats {
    pub fn new() -> Self {
        Stats {
            sample_budget: 6,
            ..Default::default()
        }
    }
    pub fn class(&mut self, name: &str, n: u64) {
        if n > 0 {
            *self.classes.entry(name.to_string()).or_insert(0) += n;
        }
    }
    pub fn max(&mut self, name: &str, v: f64) {
        let e = self.maxima.entry(name.to_string()).or_insert(f64::NEG_INFINITY);
        if v > *e {
            *e = v;
        }
    }
    pub fn nontrivial<H: Hash>(&mut self, h: &H) {
        if self.nontrivial_hashes.len() < DISTINCT_CAP {
            let mut s = std::collections::hash_map::DefaultHasher::new();
            h.hash(&mut s);
            self.nontrivial_hashes.insert(s.finish());
        } else {
            self.nontrivial_saturated = true;
        }
    }
    pub fn sample(&mut self, f: impl FnOnce() -> Value) {
        if cfg!(miri) {
            return; // formatting is very slow under the interpreter; samples come from the native runs
        }
        // first few, then a thinning stream (powers of two of the evaluation counter)
        let n = self.evaluations;
        if self.samples.len() < self.sample_budget || (n.is_power_of_two() && n >= 64 && self.samples.len() < self.sample_budget * 3) {
            self.samples.push(f());
        }
    }
    pub fn merge(&mut self, o: Stats) {
        self.evaluations += o.evaluations;
        self.comparisons += o.comparisons;
        for h in o.nontrivial_hashes {
            if self.nontrivial_hashes.len() < DISTINCT_CAP {
                self.nontrivial_hashes.insert(h);
            } else {
                self.nontrivial_saturated = true;
            }
        }
        self.nontrivial_saturated |= o.nontrivial_saturated;
        self.nontrivial_by_construction += o.nontrivial_by_construction;
        for (k, v) in o.classes {
            *self.classes.entry(k).or_insert(0) += v;
        }
        for (k, v) in o.maxima {
            self.max(&k, v);
        }
        for s in o.samples {
            if self.samples.len() < 24 {
                self.samples.push(s);
            }
        }
        self.notes.extend(o.notes);
        for p in o.exhaustive_parts {
            if !self.exhaustive_parts.contains(&p) {
                self.exhaustive_parts.push(p);
            }
        }
    }
    pub fn distinct_nontrivial(&self) -> u64 {
        self.nontrivial_hashes.len() as u64 + self.nontrivial_by_construction
    }
}

pub fn mix64(mut z: u64) -> u64 {
    z = z.wrapping_add(0x9E37_79B9_7F4A_7C15);
    z = (z ^ (z >> 30)).wrapping_mul(0xBF58_476D_1CE4_E5B9);
    z = (z ^ (z >> 27)).wrapping_mul(0x94D0_49BB_1331_11EB);
    z ^ (z >> 31)
}

pub fn hash_str(s: &str) -> u64 {
    let mut h = 0xcbf2_9ce4_8422_2325u64;
    for b in s.bytes() {
        h ^= b as u64;
        h = h.wrapping_mul(0x100_0000_01b3);
    }
    h
}

/// Deterministic expansion of a proptest-generated seed into bulk values (SplitMix64).
/// It is *only* ever seeded from values produced by proptest's generators (or from the index of
/// an exhaustive enumeration), so every case remains a pure function of VERIF_SEED.
#[derive(Clone)]
pub struct Expand(pub u64);
impl Expand {
    pub fn next_u64(&mut self) -> u64 {
        self.0 = self.0.wrapping_add(0x9E37_79B9_7F4A_7C15);
        let mut z = self.0;
        z = (z ^ (z >> 30)).wrapping_mul(0xBF58_476D_1CE4_E5B9);
        z = (z ^ (z >> 27)).wrapping_mul(0x94D0_49BB_1331_11EB);
        z ^ (z >> 31)
    }
    pub fn next_u32(&mut self) -> u32 {
        (self.next_u64() >> 32) as u32
    }
    /// uniform in [0,1)
    pub fn unit(&mut self) -> f64 {
        (self.next_u64() >> 11) as f64 / (1u64 << 53) as f64
    }
    pub fn range_f64(&mut self, lo: f64, hi: f64) -> f64 {
        lo + (hi - lo) * self.unit()
    }
    /// uniform integer in [0,n)
    pub fn below(&mut self, n: u64) -> u64 {
        if n == 0 {
            return 0;
        }
        ((self.next_u64() as u128 * n as u128) >> 64) as u64
    }
    pub fn pick<'a, T>(&mut self, xs: &'a [T]) -> &'a T {
        &xs[self.below(xs.len() as u64) as usize]
    }
}

/// Run `cases` proptest cases split over the context's threads. The checker returns
/// `Err(Violation)` when the property is violated on that case. On failure proptest shrinks the
/// case; the violation of the shrunk case is what is reported.
pub fn run_proptest<C, MkS, Chk>(ctx: &Ctx, st: &mut Stats, label: &str, cases: u32, mk_strategy: MkS, check: Chk) -> Vec<Violation>
where
    C: std::fmt::Debug + Clone + Send + 'static,
    MkS: Fn() -> BoxedStrategy<C> + Sync,
    Chk: Fn(&C, &mut Stats) -> Result<(), Violation> + Sync,
{
    // a quarter of the cases with the `log` facade silent (the default of a program without a logger), the rest
    // with a logger installed at Trace: code inside the library's log statements runs only then
    let quiet = cases / 4;
    let mut v = Vec::new();
    if quiet > 0 {
        set_logging(false);
        v = run_proptest_phase(ctx, st, &format!("{label}#quiet"), quiet, &mk_strategy, &check);
        set_logging(true);
        tag_logging(&mut v, false);
    }
    if v.is_empty() {
        v = run_proptest_phase(ctx, st, label, cases - quiet, &mk_strategy, &check);
        tag_logging(&mut v, true);
    }
    v
}

thread_local! {
    /// which generator thread this is ("label#index"): its case list is a pure function of (seed, property, tag)
    static RUN_TAG: std::cell::RefCell<Option<String>> = const { std::cell::RefCell::new(None) };
}
/// VCHECK_ONLY=label#index restricts a run to the cases of that generator thread (enumerations are skipped)
pub fn only_tag() -> Option<String> {
    std::env::var("VCHECK_ONLY").ok().filter(|s| !s.is_empty())
}

/// a logger that formats every record, as a real one would, and drops it
struct SinkLogger;
static SINK: SinkLogger = SinkLogger;
pub static LOG_RECORDS: std::sync::atomic::AtomicU64 = std::sync::atomic::AtomicU64::new(0);
impl log::Log for SinkLogger {
    fn enabled(&self, _: &log::Metadata) -> bool {
        true
    }
    fn log(&self, r: &log::Record) {
        use std::fmt::Write;
        let mut s = String::new();
        let _ = write!(s, "{} {}", r.level(), r.args());
        LOG_RECORDS.fetch_add(1, Ordering::Relaxed);
    }
    fn flush(&self) {}
}
/// install the logger (once per process); logging starts enabled at Trace
pub fn install_logger() {
    let _ = log::set_logger(&SINK);
    set_logging(true);
}
pub fn set_logging(on: bool) {
    log::set_max_level(if on { log::LevelFilter::Trace } else { log::LevelFilter::Off });
}
/// record in the replay case whether logging was enabled when the violation was found
pub fn tag_logging(v: &mut [Violation], on: bool) {
    for x in v.iter_mut() {
        if let Some(o) = x.case.as_object_mut() {
            o.insert("logging".into(), json!(on));
        }
    }
}

fn run_proptest_phase<C, MkS, Chk>(ctx: &Ctx, st: &mut Stats, label: &str, cases: u32, mk_strategy: &MkS, check: &Chk) -> Vec<Violation>
where
    C: std::fmt::Debug + Clone + Send + 'static,
    MkS: Fn() -> BoxedStrategy<C> + Sync,
    Chk: Fn(&C, &mut Stats) -> Result<(), Violation> + Sync,
{
    let threads = ctx.threads.max(1).min(cases.max(1) as usize);
    let per = cases / threads as u32;
    let extra = cases % threads as u32;
    let results: Mutex<Vec<(Stats, Option<Violation>)>> = Mutex::new(Vec::new());
    let stop = AtomicBool::new(false);
    std::thread::scope(|scope| {
        for t in 0..threads {
            let n = per + if (t as u32) < extra { 1 } else { 0 };
            if n == 0 {
                continue;
            }
            let results = &results;
            let stop = &stop;
            let seed = mix64(ctx.seed ^ hash_str(&ctx.id) ^ hash_str(label).rotate_left(17) ^ ((t as u64) << 48));
            // a supervised re-run may be restricted to the case list of one generator thread (see main.rs: supervise)
            let tag = format!("{label}#{t}");
            if let Some(only) = only_tag() {
                if only != tag {
                    continue;
                }
            }
            scope.spawn(move || {
                RUN_TAG.with(|r| *r.borrow_mut() = Some(tag));
                let mut local = Stats::new();
                // safety net: a panic escaping a checker (e.g. the library panicking inside a generator's
                // feedback call) is reported as a violation of this property instead of killing the process
                let id = ctx.id.clone();
                let check = move |c: &C, st: &mut Stats| -> Result<(), Violation> {
                    match catch(|| check(c, st)) {
                        Ok(r) => r,
                        Err(p) => Err(Violation {
                            signature: format!("{id}:panic-outside-oracle"),
                            message: format!("panic while generating/checking a case: {p}"),
                            case: json!({"prop": id, "debug": format!("{:?}", c)}),
                        }),
                    }
                };
                let config = Config {
                    cases: n,
                    failure_persistence: None,
                    rng_seed: RngSeed::Fixed(seed),
                    max_shrink_iters: 2000,
                    ..Config::default()
                };
                let mut runner = TestRunner::new(config);
                let strat = mk_strategy();
                let failed = std::cell::Cell::new(false);
                let local_cell = std::cell::RefCell::new(&mut local);
                let res = runner.run(&strat, |c| {
                    if stop.load(Ordering::Relaxed) && !failed.get() {
                        // another thread already found a violation: finish quickly
                        return Ok(());
                    }
                    let r = if failed.get() {
                        // shrinking phase: do not count
                        let mut scratch = Stats::new();
                        check(&c, &mut scratch)
                    } else {
                        let mut g = local_cell.borrow_mut();
                        check(&c, &mut g)
                    };
                    match r {
                        Ok(()) => Ok(()),
                        Err(v) => {
                            failed.set(true);
                            stop.store(true, Ordering::Relaxed);
                            Err(TestCaseError::fail(v.message))
                        }
                    }
                });
                let viol = match res {
                    Ok(()) => None,
                    Err(TestError::Fail(_, shrunk)) => {
                        let mut scratch = Stats::new();
                        match check(&shrunk, &mut scratch) {
                            Err(v) => Some(v),
                            Ok(()) => Some(Violation {
                                signature: "non-reproducible".into(),
                                message: format!("shrunk case no longer fails: {:?}", shrunk),
                                case: json!({"debug": format!("{:?}", shrunk)}),
                            }),
                        }
                    }
                    Err(TestError::Abort(r)) => Some(Violation {
                        signature: "generator-abort".into(),
                        message: format!("proptest aborted: {}", r),
                        case: Value::Null,
                    }),
                };
                results.lock().unwrap().push((local, viol));
            });
        }
    });
    let mut out = Vec::new();
    for (s, v) in results.into_inner().unwrap() {
        st.merge(s);
        if let Some(v) = v {
            out.push(v);
        }
    }
    // deterministic order, dedupe by signature
    out.sort_by(|a, b| a.signature.cmp(&b.signature).then(a.message.cmp(&b.message)));
    out.dedup_by(|a, b| a.signature == b.signature);
    out
}

/// Exhaustive (or strided) sweep over `0..total` split into contiguous chunks over the threads.
/// `work(lo, hi, &mut Stats)` returns the first violation in its chunk, if any.
pub fn par_sweep<W>(ctx: &Ctx, st: &mut Stats, total: u64, work: W) -> Vec<Violation>
where
    W: Fn(u64, u64, &mut Stats) -> Option<Violation> + Sync,
{
    if only_tag().is_some() {
        return Vec::new();
    }
    let threads = ctx.threads.max(1) as u64;
    // many chunks so that uneven costs balance
    let nchunks = (threads * 16).min(total.max(1));
    let next = std::sync::atomic::AtomicU64::new(0);
    let results: Mutex<Vec<(Stats, Vec<Violation>)>> = Mutex::new(Vec::new());
    std::thread::scope(|scope| {
        for _ in 0..threads {
            let next = &next;
            let results = &results;
            let work = &work;
            scope.spawn(move || {
                let mut local = Stats::new();
                let mut viols = Vec::new();
                loop {
                    let c = next.fetch_add(1, Ordering::Relaxed);
                    if c >= nchunks {
                        break;
                    }
                    let lo = (total as u128 * c as u128 / nchunks as u128) as u64;
                    let hi = (total as u128 * (c + 1) as u128 / nchunks as u128) as u64;
                    match catch(|| work(lo, hi, &mut local)) {
                        Ok(Some(v)) => viols.push(v),
                        Ok(None) => {}
                        Err(p) => viols.push(Violation {
                            signature: "panic-in-sweep".into(),
                            message: format!("panic inside an enumeration block [{lo},{hi}): {p}"),
                            case: json!({"block": [lo, hi]}),
                        }),
                    }
                }
                results.lock().unwrap().push((local, viols));
            });
        }
    });
    let mut out = Vec::new();
    for (s, v) in results.into_inner().unwrap() {
        st.merge(s);
        out.extend(v);
    }
    out.sort_by(|a, b| a.signature.cmp(&b.signature).then(a.message.cmp(&b.message)));
    out.dedup_by(|a, b| a.signature == b.signature);
    tag_logging(&mut out, log::max_level() != log::LevelFilter::Off);
    out
}

/// Run a replay closure under the logging state recorded in the case; a case without that record (older replay
/// files, hand-written ones) is run silent first and then with the logger at Trace.
pub fn replay_with_logging(v: &Value, f: &dyn Fn(&Value) -> Result<(), String>) -> Result<(), String> {
    let levels: Vec<bool> = match v.get("logging").and_then(|b| b.as_bool()) {
        Some(b) => vec![b],
        None => vec![false, true],
    };
    let mut r = Ok(());
    for on in levels {
        set_logging(on);
        r = f(v);
        if r.is_err() {
            break;
        }
    }
    set_logging(true);
    r
}

/// Draw one value from a strategy (used to build Miri/fuzz corpora from the same generators).
pub fn sample_strategy<C: std::fmt::Debug>(strat: &BoxedStrategy<C>, seed: u64, n: usize) -> Vec<C> {
    let config = Config {
        failure_persistence: None,
        rng_seed: RngSeed::Fixed(seed),
        ..Config::default()
    };
    let mut runner = TestRunner::new(config);
    (0..n)
        .map(|_| {
            use proptest::strategy::Strategy;
            strat.new_tree(&mut runner).unwrap().current()
        })
        .collect()
}

/// f32 that survives JSON exactly: "value@hexbits"
pub fn f2j(x: f32) -> Value {
    Value::String(format!("{:e}@{:08x}", x, x.to_bits()))
}
pub fn j2f(v: &Value) -> Option<f32> {
    match v {
        Value::String(s) => {
            let hex = s.rsplit('@').next()?;
            u32::from_str_radix(hex, 16).ok().map(f32::from_bits)
        }
        Value::Number(n) => n.as_f64().map(|x| x as f32),
        _ => None,
    }
}
pub fn px2j(p: [f32; 3]) -> Value {
    json!([f2j(p[0]), f2j(p[1]), f2j(p[2])])
}
pub fn j2px(v: &Value) -> Option<[f32; 3]> {
    let a = v.as_array()?;
    Some([j2f(a.get(0)?)?, j2f(a.get(1)?)?, j2f(a.get(2)?)?])
}

/// run `f`, converting a panic into Err(message)
pub fn catch<R>(f: impl FnOnce() -> R) -> Result<R, String> {
    match std::panic::catch_unwind(std::panic::AssertUnwindSafe(f)) {
        Ok(r) => Ok(r),
        Err(e) => Err(if let Some(s) = e.downcast_ref::<String>() {
            s.clone()
        } else if let Some(s) = e.downcast_ref::<&str>() {
            s.to_string()
        } else {
            "non-string panic".to_string()
        }),
    }
}

// ---------------------------------------------------------------- journal (child-process isolation)

thread_local! {
    static JOURNAL: std::cell::RefCell<Option<std::fs::File>> = const { std::cell::RefCell::new(None) };
}
static JOURNAL_SEQ: std::sync::atomic::AtomicU64 = std::sync::atomic::AtomicU64::new(0);

/// When VCHECK_JOURNAL_DIR is set (the process runs as a supervised child), record the case that
/// is about to execute, so that an abnormal termination (SIGABRT from std's ub_checks, SIGSEGV) can
/// be attributed to it by the supervising parent.
pub fn journal(case: impl FnOnce() -> Value) {
    let Ok(dir) = std::env::var("VCHECK_JOURNAL_DIR") else { return };
    JOURNAL.with(|j| {
        use std::io::{Seek, SeekFrom, Write};
        let mut j = j.borrow_mut();
        if j.is_none() {
            let n = JOURNAL_SEQ.fetch_add(1, Ordering::Relaxed);
            *j = std::fs::File::create(format!("{dir}/j-{n}.json")).ok();
        }
        if let Some(f) = j.as_mut() {
            // the last JOURNAL_DEPTH cases of this thread, oldest first (a crash may need the calls before it)
            // also the last JOURNAL_LARGE real-size cases (they are rare, and size-gated state - scratch buffers, tables -
            // only changes on them), merged in execution order
            let body = JOURNAL_RING.with(|r| {
                let mut r = r.borrow_mut();
                let v = case();
                let large = v.get("seeded").is_some();
                let n = r.2;
                r.2 += 1;
                let txt = v.to_string();
                if large {
                    if r.1.len() >= JOURNAL_LARGE {
                        r.1.remove(0);
                    }
                    r.1.push((n, txt.clone()));
                }
                if r.0.len() >= JOURNAL_DEPTH {
                    r.0.remove(0);
                }
                r.0.push((n, txt));
                let first_recent = r.0[0].0;
                let head = RUN_TAG.with(|t| t.borrow().as_ref().map(|t| json!({"journal_of": t}).to_string()));
                let mut all: Vec<&str> = head.iter().map(|h| h.as_str()).collect();
                all.extend(r.1.iter().filter(|(k, _)| *k < first_recent).map(|(_, t)| t.as_str()));
                all.extend(r.0.iter().map(|(_, t)| t.as_str()));
                format!("[{}]", all.join(","))
            });
            let _ = f.seek(SeekFrom::Start(0));
            let _ = f.set_len(0);
            let _ = f.write_all(body.as_bytes());
            let _ = f.flush();
        }
    });
}
pub const JOURNAL_DEPTH: usize = 24;
pub const JOURNAL_LARGE: usize = 64;
type Ring = (Vec<(u64, String)>, Vec<(u64, String)>, u64);
thread_local! {
    static JOURNAL_RING: std::cell::RefCell<Ring> = const { std::cell::RefCell::new((Vec::new(), Vec::new(), 0)) };
}

/// classification of a caught panic message
pub fn is_hook_panic(msg: &str) -> bool {
    msg.contains("VERIF-HOOK")
}

// ---------------------------------------------------------------- value minimisation (shrinking of a failing pixel)

/// Greedy simplification of a failing f32 triple: each component is moved towards "simple" values
/// (0, 1, 0.5, fewer significant digits) as long as `fails` still holds. The result still fails.
pub fn minimize_px(mut p: [f32; 3], lo: f32, hi: f32, fails: impl Fn([f32; 3]) -> bool) -> [f32; 3] {
    if !fails(p) {
        return p;
    }
    for _round in 0..3 {
        let mut changed = false;
        for i in 0..3 {
            let orig = p[i];
            let mut cands: Vec<f32> = vec![0.0, 1.0, 0.5, lo, hi];
            for digits in [1i32, 2, 3, 4, 5] {
                let m = 10f32.powi(digits);
                cands.push((orig * m).round() / m);
            }
            // halve the distance to zero
            cands.push(orig / 2.0);
            for c in cands {
                if c.to_bits() == orig.to_bits() || !(c >= lo && c <= hi) {
                    continue;
                }
                // only accept candidates that are "simpler": fewer mantissa bits or smaller magnitude
                let simpler = (c.to_bits().trailing_zeros() > orig.to_bits().trailing_zeros()) || c.abs() < orig.abs();
                if !simpler {
                    continue;
                }
                let mut q = p;
                q[i] = c;
                if fails(q) {
                    p = q;
                    changed = true;
                    break;
                }
            }
        }
        if !changed {
            break;
        }
    }
    p
}

/// Greedy simplification of a failing code triple: components are moved towards `target` (e.g. the
/// neutral code) by bisection as long as `fails` still holds.
pub fn minimize_codes(mut c: [u16; 3], target: [u16; 3], fails: impl Fn([u16; 3]) -> bool) -> [u16; 3] {
    if !fails(c) {
        return c;
    }
    for _round in 0..2 {
        for i in 0..3 {
            // try the target itself, then bisect towards it
            let mut q = c;
            q[i] = target[i];
            if fails(q) {
                c = q;
                continue;
            }
            let (mut good, mut bad) = (c[i] as i64, target[i] as i64); // good = still failing
            while (good - bad).abs() > 1 {
                let mid = (good + bad) / 2;
                let mut q = c;
                q[i] = mid as u16;
                if fails(q) {
                    good = mid;
                } else {
                    bad = mid;
                }
            }
            c[i] = good as u16;
        }
    }
    c
}

/// simplification of a single failing f32 value
pub fn minimize_f32(x: f32, lo: f32, hi: f32, fails: impl Fn(f32) -> bool) -> f32 {
    minimize_px([x, 0.0, 0.0], lo, hi, |p| p[1] == 0.0 && p[2] == 0.0 && fails(p[0]))[0]
}

// ---------------------------------------------------------------- adjacency-aware batches

/// Rewrites a generated batch so that neighbouring pixels are *related*: equal, equal in one or two
/// components, or equal to the conversion result of the previous pixel (`feedback`). Conversions
/// are specified to be pointwise, so none of this may change any per-pixel result; caches keyed on
/// the previous pixel, on its in-place overwritten value or on part of it show up only on such
/// images. `in_domain` keeps fed-back values inside the property's input domain.
pub fn correlate_px(px: &mut [[f32; 3]], seed: u64, feedback: Option<&dyn Fn([f32; 3]) -> Option<[f32; 3]>>, in_domain: &dyn Fn([f32; 3]) -> bool) {
    let mut e = Expand(seed ^ 0xC0_44E1);
    let mut mode = 9u64;
    let mut left = 0u64;
    for i in 1..px.len() {
        if left == 0 {
            // a mode is kept for a short run, so that chains (slow ramps, repeated feedback) occur
            mode = e.below(13);
            left = 1 + e.below(6);
        }
        left -= 1;
        let prev = px[i - 1];
        match mode {
            0 => px[i] = prev,
            1 => {
                // share two components
                let k = e.below(3) as usize;
                let keep = px[i][k];
                px[i] = prev;
                px[i][k] = keep;
            }
            2 => {
                // share one component
                let k = e.below(3) as usize;
                px[i][k] = prev[k];
            }
            3 | 4 => {
                if let Some(f) = feedback {
                    if let Some(o) = f(prev) {
                        if in_domain(o) {
                            px[i] = o;
                        }
                    }
                }
            }
            5 => {
                // rotate the previous pixel's components
                let r = [prev[1], prev[2], prev[0]];
                if in_domain(r) {
                    px[i] = r;
                }
            }
            9 => {
                // exposure change: the previous pixel scaled by a power of two (exact in binary floating point, so
                // ratios between components - hue, saturation below mid lightness, chroma direction - stay bit-identical)
                let k = [0.5f32, 0.25, 2.0, 4.0, 0.125][e.below(5) as usize];
                let q = [prev[0] * k, prev[1] * k, prev[2] * k];
                if in_domain(q) {
                    px[i] = q;
                }
            }
            10 => {
                // same mid-point (max+min)/2, half the spread: lightness and hue stay, saturation halves
                let mx = prev[0].max(prev[1]).max(prev[2]);
                let mn = prev[0].min(prev[1]).min(prev[2]);
                let m = (mx + mn) / 2.0;
                let q = [m + (prev[0] - m) / 2.0, m + (prev[1] - m) / 2.0, m + (prev[2] - m) / 2.0];
                if in_domain(q) {
                    px[i] = q;
                }
            }
            11 => {
                // coordinated bit flips: the previous pixel with bit s+j of one component and bit j of another flipped
                // (keys that pack the components' bit patterns with shifts and xor / add collide on exactly such pairs)
                let a = e.below(3) as usize;
                let b = (a + 1 + e.below(2) as usize) % 3;
                let sft = [8u64, 10, 12, 16, 20, 24][e.below(6) as usize];
                let j = e.below(32 - sft);
                let mut q = prev;
                q[a] = f32::from_bits(q[a].to_bits() ^ (1u32 << (sft + j)));
                q[b] = f32::from_bits(q[b].to_bits() ^ (1u32 << j));
                if q.iter().all(|x| x.is_finite()) && in_domain(q) {
                    px[i] = q;
                }
            }
            8 => {
                // alternation A B A: the pixel before the previous one comes back
                if i >= 2 {
                    px[i] = px[i - 2];
                }
            }
            6 | 7 => {
                // slow ramp: the previous pixel nudged by 0..2 ulp per component (gradients, deep shadows)
                let mut q = prev;
                for c in q.iter_mut() {
                    let d = e.below(5) as i32 - 2;
                    let b = c.to_bits() as i64 + if mode == 6 { d.unsigned_abs() as i64 } else { d as i64 };
                    let v = f32::from_bits(b.clamp(0, 0x7F7F_FFFF) as u32);
                    if c.is_sign_positive() {
                        *c = v;
                    }
                }
                if in_domain(q) {
                    px[i] = q;
                }
            }
            _ => {}
        }
    }
}

/// "The previous call converted a permutation of the same pixels": whether (and how) a check should first convert a
/// permuted copy of its image, ignoring the result. A pure function of the pixel data, so that a replay from the
/// pixel list repeats the same history. Content digests that ignore pixel order (sums, xors) and "same picture as last
/// time" shortcuts keyed on them are exposed by exactly this. None for two thirds of the images.
pub fn prior_perm_kind(bits: impl Iterator<Item = u32>, len: usize) -> Option<u8> {
    if len < 2 {
        return None;
    }
    let mut h = 0x9E37_79B9_7F4A_7C15u64;
    for b in bits.take(64) {
        h = mix64(h ^ b as u64);
    }
    let k = h % 12;
    if k < 4 {
        Some(k as u8)
    } else {
        None
    }
}
/// kinds: 0 reversed, 1 rows mirrored, 2 first and last pixel swapped, 3 rotated by one
pub fn permuted<T: Copy>(px: &[T], kind: u8, w: usize) -> Vec<T> {
    let mut v = px.to_vec();
    let n = v.len();
    match kind % 4 {
        0 => v.reverse(),
        1 => {
            if w > 0 && n % w == 0 {
                for row in v.chunks_mut(w) {
                    row.reverse();
                }
            } else {
                v.reverse();
            }
        }
        2 => v.swap(0, n - 1),
        _ => v.rotate_left(1),
    }
    v
}

/// Row-level relations for in-place conversions that look at the row above: some row becomes the library's own
/// result for the row above it (pixel by pixel), a copy of it, or its mirror image. When the fed-back row would leave
/// the input domain, the row above is first replaced by a grey row (whose results are in the domain of every
/// conversion here: (0,0,L) for HSL, (0,Y,Y) for XYB, grey for primaries).
pub fn correlate_rows(px: &mut [[f32; 3]], w: usize, h: usize, seed: u64, feedback: &dyn Fn([f32; 3]) -> Option<[f32; 3]>, in_domain: &dyn Fn([f32; 3]) -> bool) {
    if h < 2 || w == 0 || px.len() < w * h {
        return;
    }
    let mut e = Expand(seed ^ 0x20_77E1);
    for _ in 0..1 + e.below(2) {
        let y = e.below(h as u64 - 1) as usize;
        let (above, below) = px.split_at_mut((y + 1) * w);
        let above = &mut above[y * w..];
        let below = &mut below[..w];
        match e.below(4) {
            0 => below.copy_from_slice(above),
            1 => {
                for (i, p) in below.iter_mut().enumerate() {
                    *p = above[w - 1 - i];
                }
            }
            _ => {
                let fb = |row: &[[f32; 3]]| -> Option<Vec<[f32; 3]>> { row.iter().map(|p| feedback(*p).filter(|q| in_domain(*q))).collect() };
                let out = match fb(above) {
                    Some(o) => Some(o),
                    None => {
                        let base = e.unit() as f32;
                        let flat = e.below(2) == 0;
                        for (i, p) in above.iter_mut().enumerate() {
                            let g = if flat { base } else { ((base + i as f32 * 0.0137) % 1.0).abs() };
                            *p = [g, g, g];
                        }
                        fb(above)
                    }
                };
                if let Some(o) = out {
                    below.copy_from_slice(&o);
                }
            }
        }
    }
}

/// image shapes: single pixels and tiny images often (whole-image fast paths depend on *all* pixels),
/// otherwise w x h up to the given maxima
pub fn shape_from(seed: u64, max_w: usize, max_h: usize) -> (usize, usize) {
    let mut e = Expand(seed ^ 0x5AA9E);
    match e.below(10) {
        0 => (1, 1),
        1 => {
            if e.below(2) == 0 {
                (2, 1)
            } else {
                (1, 2)
            }
        }
        2 => (1 + e.below(3) as usize, 1 + e.below(3) as usize),
        _ => (1 + e.below(max_w as u64) as usize, 1 + e.below(max_h as u64) as usize),
    }
}
