//! Generators shared by several properties.

use crate::engine::Expand;
use crate::oracle::{STD_MC, SUP_CP, SUP_TC};
use proptest::prelude::*;
use yuvxyb::{ColorPrimaries as CP, MatrixCoefficients as MC, TransferCharacteristic as TC};

/// index into a slice, monotone in the raw draw (shrinks towards element 0)
pub fn pick_from<T: Clone + std::fmt::Debug + 'static>(xs: &'static [T]) -> impl Strategy<Value = T> {
    (0..xs.len()).prop_map(move |i| xs[i].clone())
}

pub fn std_matrix() -> impl Strategy<Value = MC> {
    pick_from(&STD_MC)
}
pub fn sup_transfer() -> impl Strategy<Value = TC> {
    pick_from(&SUP_TC)
}
pub fn sup_primaries() -> impl Strategy<Value = CP> {
    pick_from(&SUP_CP)
}

/// (depth, storage_is_u8): u8 storage only at depth 8, u16 storage for 8..=16
pub fn depth_storage() -> impl Strategy<Value = (u8, bool)> {
    prop_oneof![
        2 => Just((8u8, true)),
        2 => Just((8u8, false)),
        2 => Just((10u8, false)),
        1 => Just((12u8, false)),
        1 => Just((16u8, false)),
        4 => (9u8..=16).prop_map(|d| (d, false)),
    ]
}

pub const SUBSAMPLINGS: [(u8, u8); 6] = [(0, 0), (1, 0), (1, 1), (0, 1), (2, 0), (2, 2)];

/// code values where the range arithmetic branches
pub fn boundary_codes(depth: u8) -> Vec<u16> {
    let n = depth as u32;
    let k = 1u32 << (n - 8);
    let max = (1u32 << n) - 1;
    let half = 1u32 << (n - 1);
    let mut v: Vec<u32> = vec![
        0,
        1,
        2,
        16 * k - 1,
        16 * k,
        16 * k + 1,
        128 * k - 1,
        128 * k,
        128 * k + 1,
        235 * k - 1,
        235 * k,
        235 * k + 1,
        240 * k - 1,
        240 * k,
        240 * k + 1,
        half - 1,
        half,
        half + 1,
        max - 1,
        max,
        max / 2,
        max / 3,
    ];
    v.retain(|c| *c <= max);
    v.sort_unstable();
    v.dedup();
    v.into_iter().map(|c| c as u16).collect()
}

/// Deterministic expansion of (stratum, seed) into `n` code triples at the given depth.
/// strata: 0 uniform; 1 boundary set; 2 single-axis sweep (consecutive codes along one axis, other
/// two fixed); 3 mixed (each component independently uniform or boundary); 4 near-neutral chroma;
/// 5 related neighbours (next triple = previous one with +-1 / +-2^k on one or two planes, or equal);
/// 6 uniformly tinted: both chroma planes constant (extreme / neutral / near-extreme values chosen by seed % 8),
/// luma uniform - whole-plane statistics (sums, "is this frame grey" tests) are extreme on such frames
pub fn expand_codes(depth: u8, stratum: u8, seed: u64, n: usize) -> Vec<[u16; 3]> {
    let mut e = Expand(seed);
    let max = ((1u32 << depth) - 1) as u64;
    let b = boundary_codes(depth);
    let mut out = Vec::with_capacity(n);
    match stratum % 7 {
        6 => {
            let (m, h) = (max as u16, (1u32 << (depth - 1)) as u16);
            let (u, v) = [(0, 0), (m, m), (0, m), (m, 0), (h, h), (0, h), (1, 1), (m - 1, m - 1)][(seed % 8) as usize];
            for _ in 0..n {
                out.push([e.below(max + 1) as u16, u, v]);
            }
        }
        0 => {
            for _ in 0..n {
                out.push([e.below(max + 1) as u16, e.below(max + 1) as u16, e.below(max + 1) as u16]);
            }
        }
        1 => {
            for _ in 0..n {
                out.push([*e.pick(&b), *e.pick(&b), *e.pick(&b)]);
            }
        }
        2 => {
            let axis = e.below(3) as usize;
            let fixed = [
                if e.below(2) == 0 { *e.pick(&b) } else { e.below(max + 1) as u16 },
                if e.below(2) == 0 { *e.pick(&b) } else { e.below(max + 1) as u16 },
                if e.below(2) == 0 { *e.pick(&b) } else { e.below(max + 1) as u16 },
            ];
            let start = e.below(max + 1);
            for i in 0..n {
                let mut p = fixed;
                p[axis] = ((start + i as u64) % (max + 1)) as u16;
                out.push(p);
            }
        }
        3 => {
            for _ in 0..n {
                let mut p = [0u16; 3];
                for c in p.iter_mut() {
                    *c = if e.below(3) == 0 { *e.pick(&b) } else { e.below(max + 1) as u16 };
                }
                out.push(p);
            }
        }
        5 => {
            let mut p = [e.below(max + 1) as i64, e.below(max + 1) as i64, e.below(max + 1) as i64];
            for _ in 0..n {
                out.push([p[0] as u16, p[1] as u16, p[2] as u16]);
                match e.below(8) {
                    0 => {} // identical neighbour
                    1 => p = [e.below(max + 1) as i64, e.below(max + 1) as i64, e.below(max + 1) as i64],
                    _ => {
                        let planes = 1 + e.below(2);
                        for _ in 0..planes {
                            let k = e.below(3) as usize;
                            let d = 1i64 << e.below(depth as u64);
                            let d = if e.below(2) == 0 { d } else { -d };
                            p[k] = (p[k] + d).rem_euclid(max as i64 + 1);
                        }
                    }
                }
            }
        }
        _ => {
            let half = 1i64 << (depth - 1);
            for _ in 0..n {
                let du = e.below(9) as i64 - 4;
                let dv = e.below(9) as i64 - 4;
                out.push([
                    e.below(max + 1) as u16,
                    (half + du).clamp(0, max as i64) as u16,
                    (half + dv).clamp(0, max as i64) as u16,
                ]);
            }
        }
    }
    out
}

/// (w, h, per-plane paddings) for a batch of n code triples: several rows and independent plane
/// strides, so that row/stride mix-ups between planes show; the batch is truncated to w*h
pub fn layout_for(seed: u64, n: usize) -> (usize, usize, [(usize, usize); 3]) {
    let mut e = Expand(seed ^ 0x1A70);
    let h = (1 + e.below(4) as usize).min(n.max(1));
    let w = (n / h).max(1);
    let mut pads = [(0usize, 0usize); 3];
    if e.below(2) == 0 {
        for p in pads.iter_mut() {
            *p = (if e.below(2) == 0 { 0 } else { e.below(33) as usize }, e.below(3) as usize);
        }
    }
    (w, h, pads)
}

/// Real-size frames: pixel counts above 2^15, 2^16, 2^18, 2^21 and 2^22 (odd counts: not multiples of 4/8/16),
/// rows wider than 8192 and 65536, full HD and (last entry, thorough tiers) one pixel more than UHD in each
/// direction. Size-gated fast paths (tables, tiling, threads) only run on such images. The first eight entries
/// are the quick set. (w, h) before rounding to the subsampling.
pub const LARGE_SIZES: [(usize, usize); 13] = [
    (256, 128),
    (257, 255),
    (448, 256),
    (521, 511),
    (1449, 1449),
    (8200, 3),
    (65540, 1),
    (2049, 2049),
    (384, 256),
    (1920, 1080),
    (40002, 2),
    (131080, 1),
    (3841, 2161),
];

/// The real-size frames of a tier: quick = the first eight LARGE_SIZES plus UHD-1 (3840x2160, the size at which
/// "large frame" paths typically switch on) and 2897x2897 (odd count above 2^23); thorough = all of LARGE_SIZES, UHD-1,
/// 2897x2897, DCI 4K, 4097x4097 (odd count above 2^24) and 8K UHD-2.
pub fn large_sizes(quick: bool) -> Vec<(usize, usize)> {
    let mut v: Vec<(usize, usize)> = if quick { LARGE_SIZES[..8].to_vec() } else { LARGE_SIZES.to_vec() };
    v.push((3840, 2160));
    // an odd pixel count just above 2^23 (work split over threads / tiles leaves a remainder there)
    v.push((2897, 2897));
    if !quick {
        v.push((4096, 2160));
        v.push((4097, 4097));
        v.push((7680, 4320));
    }
    v
}

/// power-of-two frame sizes (textures, test patterns): whole-plane sums wrap around exactly there
pub fn pow2_sizes(quick: bool) -> Vec<(usize, usize)> {
    if quick {
        vec![(512, 256), (2048, 1024)]
    } else {
        vec![(512, 256), (1024, 1024), (2048, 1024), (4096, 2048), (8192, 4096)]
    }
}

/// Row-level relations inside and between the planes of a YUV image (per-line caches, "same line as above" shortcuts):
/// a luma row repeats the row above; a chroma row repeats the row above entirely, on its left half only or on its
/// right half only; a V row repeats the *U* row above or beside it. dims = (width, height) of each plane.
pub fn correlate_plane_rows(planes: &mut [Vec<u16>; 3], dims: [(usize, usize); 3], seed: u64) {
    let mut e = Expand(seed ^ 0x9_1A4E);
    for _ in 0..2 + e.below(4) {
        let pl = e.below(3) as usize;
        let (w, h) = dims[pl];
        if h < 2 || w == 0 {
            continue;
        }
        let y = 1 + e.below(h as u64 - 1) as usize;
        let (lo, hi) = match e.below(4) {
            0 | 1 => (0, w),
            2 => (0, w / 2),
            _ => (w / 2, w),
        };
        // source: the row above in the same plane, or (chroma) the row above / the same row of the other chroma plane
        let src_plane = if pl > 0 && dims[1] == dims[2] && e.below(3) == 0 { 3 - pl } else { pl };
        let src_row = if src_plane != pl && e.below(2) == 0 { y } else { y - 1 };
        for x in lo..hi {
            let v = planes[src_plane][src_row * w + x];
            planes[pl][y * w + x] = v;
        }
    }
    // and often a luma row equal to the one above together with an almost equal chroma row pair
    if dims[0].1 >= 2 && e.below(2) == 0 {
        let (w, h) = dims[0];
        let y = 1 + e.below(h as u64 - 1) as usize;
        for x in 0..w {
            planes[0][y * w + x] = planes[0][(y - 1) * w + x];
        }
    }
}
