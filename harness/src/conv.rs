//! The conversion graph of the library: every `From`/`TryFrom` impl as an edge over a dynamic image
//! type, so that histories (sequences of conversions) can be generated and interpreted.

use crate::api::{cfg_from_json, cfg_json};
use crate::engine::{j2px, px2j};
use crate::oracle::{cp_from_name, cp_name, tc_from_name, tc_name};
use serde_json::{json, Value};
use yuvxyb::{
    CastFromPrimitive, ColorPrimaries as CP, ConversionError, Frame, Hsl, LinearRgb, Pixel, Plane, Rgb, TransferCharacteristic as TC, Xyb, Yuv,
    YuvConfig,
};

#[derive(Clone, Debug)]
pub enum Img {
    Yuv8(Yuv<u8>),
    Yuv16(Yuv<u16>),
    Rgb(Rgb),
    Lin(LinearRgb),
    Xyb(Xyb),
    Hsl(Hsl),
}

#[derive(Clone, Copy, Debug, PartialEq, Eq, Hash)]
pub enum Kind {
    Yuv8,
    Yuv16,
    Rgb,
    Lin,
    Xyb,
    Hsl,
}

impl Img {
    pub fn kind(&self) -> Kind {
        match self {
            Img::Yuv8(_) => Kind::Yuv8,
            Img::Yuv16(_) => Kind::Yuv16,
            Img::Rgb(_) => Kind::Rgb,
            Img::Lin(_) => Kind::Lin,
            Img::Xyb(_) => Kind::Xyb,
            Img::Hsl(_) => Kind::Hsl,
        }
    }
    pub fn dims(&self) -> (usize, usize) {
        match self {
            Img::Yuv8(y) => (y.width(), y.height()),
            Img::Yuv16(y) => (y.width(), y.height()),
            Img::Rgb(r) => (r.width(), r.height()),
            Img::Lin(r) => (r.width(), r.height()),
            Img::Xyb(r) => (r.width(), r.height()),
            Img::Hsl(r) => (r.width(), r.height()),
        }
    }
    pub fn float_data(&self) -> Option<&[[f32; 3]]> {
        match self {
            Img::Rgb(r) => Some(r.data()),
            Img::Lin(r) => Some(r.data()),
            Img::Xyb(r) => Some(r.data()),
            Img::Hsl(r) => Some(r.data()),
            _ => None,
        }
    }
    /// bit-exact comparison of contents, dimensions and labels
    pub fn same_bits(&self, o: &Img) -> bool {
        fn fb(a: &[[f32; 3]], b: &[[f32; 3]]) -> bool {
            a.len() == b.len() && a.iter().zip(b).all(|(x, y)| (0..3).all(|i| x[i].to_bits() == y[i].to_bits()))
        }
        if self.kind() != o.kind() || self.dims() != o.dims() {
            return false;
        }
        match (self, o) {
            (Img::Yuv8(a), Img::Yuv8(b)) => a.config() == b.config() && yuv_samples(a) == yuv_samples(b),
            (Img::Yuv16(a), Img::Yuv16(b)) => a.config() == b.config() && yuv_samples(a) == yuv_samples(b),
            (Img::Rgb(a), Img::Rgb(b)) => a.transfer() == b.transfer() && a.primaries() == b.primaries() && fb(a.data(), b.data()),
            _ => fb(self.float_data().unwrap(), o.float_data().unwrap()),
        }
    }
}

pub trait IntoImg {
    fn into_img(self) -> Img;
}
impl IntoImg for Yuv<u8> {
    fn into_img(self) -> Img {
        Img::Yuv8(self)
    }
}
impl IntoImg for Yuv<u16> {
    fn into_img(self) -> Img {
        Img::Yuv16(self)
    }
}

/// visible samples of the three planes (row-major) with plane sizes
pub fn yuv_samples<T: Pixel>(y: &Yuv<T>) -> Vec<(usize, usize, Vec<u16>)> {
    y.data()
        .iter()
        .map(|p| {
            let mut v = Vec::with_capacity(p.cfg.width * p.cfg.height);
            for yy in 0..p.cfg.height {
                for xx in 0..p.cfg.width {
                    v.push(u16::cast_from(p.p(xx, yy)));
                }
            }
            (p.cfg.width, p.cfg.height, v)
        })
        .collect()
}

/// an edge of the conversion graph. `by_ref` selects the `&T` impl where one exists.
#[derive(Clone, Copy, Debug, PartialEq, Eq, Hash)]
pub enum Edge {
    YuvToRgb { by_ref: bool },
    YuvToLin { by_ref: bool },
    YuvToXyb { by_ref: bool },
    RgbToLin,
    RgbToXyb,
    LinToXyb,
    LinToHsl,
    XybToLin,
    HslToLin,
    LinToRgb,
    XybToRgb,
    RgbToYuv { by_ref: bool, u8_out: bool },
    LinToYuv { u8_out: bool },
    XybToYuv { u8_out: bool },
}

#[derive(Clone, Copy, Debug)]
pub struct Params {
    pub cfg: YuvConfig,
}

pub fn edges_from(k: Kind) -> Vec<Edge> {
    match k {
        Kind::Yuv8 | Kind::Yuv16 => vec![
            Edge::YuvToRgb { by_ref: true },
            Edge::YuvToRgb { by_ref: false },
            Edge::YuvToLin { by_ref: true },
            Edge::YuvToLin { by_ref: false },
            Edge::YuvToXyb { by_ref: true },
            Edge::YuvToXyb { by_ref: false },
        ],
        Kind::Rgb => vec![
            Edge::RgbToLin,
            Edge::RgbToXyb,
            Edge::RgbToYuv { by_ref: true, u8_out: true },
            Edge::RgbToYuv { by_ref: true, u8_out: false },
            Edge::RgbToYuv { by_ref: false, u8_out: true },
            Edge::RgbToYuv { by_ref: false, u8_out: false },
        ],
        Kind::Lin => vec![Edge::LinToXyb, Edge::LinToHsl, Edge::LinToRgb, Edge::LinToYuv { u8_out: true }, Edge::LinToYuv { u8_out: false }],
        Kind::Xyb => vec![Edge::XybToLin, Edge::XybToRgb, Edge::XybToYuv { u8_out: true }, Edge::XybToYuv { u8_out: false }],
        Kind::Hsl => vec![Edge::HslToLin],
    }
}

pub fn edge_name(e: Edge) -> String {
    format!("{e:?}")
}

/// cfg with the depth forced to what the output storage can hold
pub fn fit_depth(mut c: YuvConfig, u8_out: bool) -> YuvConfig {
    if u8_out {
        c.bit_depth = 8;
    }
    c
}

/// copy with spare capacity (see `float_img`)
fn spare(d: &[[f32; 3]]) -> Vec<[f32; 3]> {
    let mut v = Vec::with_capacity(d.len() + 5);
    v.extend_from_slice(d);
    v
}
/// Apply an edge. The image is taken by reference and cloned where the impl consumes it, so that
/// callers can check that borrowed sources are left unmodified.
pub fn apply(e: Edge, img: &Img, p: &Params) -> Result<Img, ConversionError> {
    let t = p.cfg.transfer_characteristics;
    let cp = p.cfg.color_primaries;
    Ok(match (e, img) {
        (Edge::YuvToRgb { by_ref }, Img::Yuv8(y)) => Img::Rgb(if by_ref { Rgb::try_from(y)? } else { Rgb::try_from(y.clone())? }),
        (Edge::YuvToRgb { by_ref }, Img::Yuv16(y)) => Img::Rgb(if by_ref { Rgb::try_from(y)? } else { Rgb::try_from(y.clone())? }),
        (Edge::YuvToLin { by_ref }, Img::Yuv8(y)) => Img::Lin(if by_ref { LinearRgb::try_from(y)? } else { LinearRgb::try_from(y.clone())? }),
        (Edge::YuvToLin { by_ref }, Img::Yuv16(y)) => Img::Lin(if by_ref { LinearRgb::try_from(y)? } else { LinearRgb::try_from(y.clone())? }),
        (Edge::YuvToXyb { by_ref }, Img::Yuv8(y)) => Img::Xyb(if by_ref { Xyb::try_from(y)? } else { Xyb::try_from(y.clone())? }),
        (Edge::YuvToXyb { by_ref }, Img::Yuv16(y)) => Img::Xyb(if by_ref { Xyb::try_from(y)? } else { Xyb::try_from(y.clone())? }),
        (Edge::RgbToLin, Img::Rgb(r)) => Img::Lin(LinearRgb::try_from(r.clone())?),
        (Edge::RgbToXyb, Img::Rgb(r)) => Img::Xyb(Xyb::try_from(r.clone())?),
        (Edge::LinToXyb, Img::Lin(l)) => Img::Xyb(Xyb::from(l.clone())),
        (Edge::LinToHsl, Img::Lin(l)) => Img::Hsl(Hsl::from(l.clone())),
        (Edge::XybToLin, Img::Xyb(x)) => Img::Lin(LinearRgb::from(x.clone())),
        (Edge::HslToLin, Img::Hsl(h)) => Img::Lin(LinearRgb::from(h.clone())),
        (Edge::LinToRgb, Img::Lin(l)) => Img::Rgb(Rgb::try_from((l.clone(), t, cp))?),
        (Edge::XybToRgb, Img::Xyb(x)) => Img::Rgb(Rgb::try_from((x.clone(), t, cp))?),
        (Edge::RgbToYuv { by_ref, u8_out }, Img::Rgb(r)) => {
            let c = fit_depth(p.cfg, u8_out);
            match (by_ref, u8_out) {
                (true, true) => Img::Yuv8(Yuv::<u8>::try_from((r, c))?),
                (true, false) => Img::Yuv16(Yuv::<u16>::try_from((r, c))?),
                (false, true) => Img::Yuv8(Yuv::<u8>::try_from((r.clone(), c))?),
                (false, false) => Img::Yuv16(Yuv::<u16>::try_from((r.clone(), c))?),
            }
        }
        (Edge::LinToYuv { u8_out }, Img::Lin(l)) => {
            let c = fit_depth(p.cfg, u8_out);
            if u8_out {
                Img::Yuv8(Yuv::<u8>::try_from((l.clone(), c))?)
            } else {
                Img::Yuv16(Yuv::<u16>::try_from((l.clone(), c))?)
            }
        }
        (Edge::XybToYuv { u8_out }, Img::Xyb(x)) => {
            let c = fit_depth(p.cfg, u8_out);
            if u8_out {
                Img::Yuv8(Yuv::<u8>::try_from((x.clone(), c))?)
            } else {
                Img::Yuv16(Yuv::<u16>::try_from((x.clone(), c))?)
            }
        }
        (e, i) => panic!("harness bug: edge {e:?} not applicable to {:?}", i.kind()),
    })
}

/// Apply an edge consuming the image (no clone in between): the library receives the very object,
/// including its allocation (spare capacity) and any hidden state.
pub fn apply_owned(e: Edge, img: Img, p: &Params) -> Result<Img, ConversionError> {
    let t = p.cfg.transfer_characteristics;
    let cp = p.cfg.color_primaries;
    Ok(match (e, img) {
        (Edge::RgbToLin, Img::Rgb(r)) => Img::Lin(LinearRgb::try_from(r)?),
        (Edge::RgbToXyb, Img::Rgb(r)) => Img::Xyb(Xyb::try_from(r)?),
        (Edge::LinToXyb, Img::Lin(l)) => Img::Xyb(Xyb::from(l)),
        (Edge::LinToHsl, Img::Lin(l)) => Img::Hsl(Hsl::from(l)),
        (Edge::XybToLin, Img::Xyb(x)) => Img::Lin(LinearRgb::from(x)),
        (Edge::HslToLin, Img::Hsl(h)) => Img::Lin(LinearRgb::from(h)),
        (Edge::LinToRgb, Img::Lin(l)) => Img::Rgb(Rgb::try_from((l, t, cp))?),
        (Edge::XybToRgb, Img::Xyb(x)) => Img::Rgb(Rgb::try_from((x, t, cp))?),
        (Edge::RgbToYuv { by_ref: false, u8_out: true }, Img::Rgb(r)) => Img::Yuv8(Yuv::<u8>::try_from((r, fit_depth(p.cfg, true)))?),
        (Edge::RgbToYuv { by_ref: false, u8_out: false }, Img::Rgb(r)) => Img::Yuv16(Yuv::<u16>::try_from((r, fit_depth(p.cfg, false)))?),
        (Edge::LinToYuv { u8_out: true }, Img::Lin(l)) => Img::Yuv8(Yuv::<u8>::try_from((l, fit_depth(p.cfg, true)))?),
        (Edge::LinToYuv { u8_out: false }, Img::Lin(l)) => Img::Yuv16(Yuv::<u16>::try_from((l, fit_depth(p.cfg, false)))?),
        (Edge::XybToYuv { u8_out: true }, Img::Xyb(x)) => Img::Yuv8(Yuv::<u8>::try_from((x, fit_depth(p.cfg, true)))?),
        (Edge::XybToYuv { u8_out: false }, Img::Xyb(x)) => Img::Yuv16(Yuv::<u16>::try_from((x, fit_depth(p.cfg, false)))?),
        (Edge::YuvToRgb { by_ref: false }, Img::Yuv8(y)) => Img::Rgb(Rgb::try_from(y)?),
        (Edge::YuvToRgb { by_ref: false }, Img::Yuv16(y)) => Img::Rgb(Rgb::try_from(y)?),
        (Edge::YuvToLin { by_ref: false }, Img::Yuv8(y)) => Img::Lin(LinearRgb::try_from(y)?),
        (Edge::YuvToLin { by_ref: false }, Img::Yuv16(y)) => Img::Lin(LinearRgb::try_from(y)?),
        (Edge::YuvToXyb { by_ref: false }, Img::Yuv8(y)) => Img::Xyb(Xyb::try_from(y)?),
        (Edge::YuvToXyb { by_ref: false }, Img::Yuv16(y)) => Img::Xyb(Xyb::try_from(y)?),
        // borrowing impls: nothing is consumed
        (e, img) => apply(e, &img, p)?,
    })
}

/// build a float image of the given kind
pub fn float_img(k: Kind, data: Vec<[f32; 3]>, w: usize, h: usize, t: TC, cp: CP) -> Img {
    // hand the library a vector with spare capacity (callers may pass any Vec): code that looks at the
    // allocation instead of the length reads uninitialised memory, which Miri reports
    let data = {
        let mut v = Vec::with_capacity(data.len() + 5);
        v.extend(data);
        v
    };
    match k {
        Kind::Rgb => Img::Rgb(Rgb::new(data, w, h, t, cp).expect("len == w*h")),
        Kind::Lin => Img::Lin(LinearRgb::new(data, w, h).expect("len == w*h")),
        Kind::Xyb => Img::Xyb(Xyb::new(data, w, h).expect("len == w*h")),
        Kind::Hsl => Img::Hsl(Hsl::new(data, w, h).expect("len == w*h")),
        _ => panic!("harness bug: not a float kind"),
    }
}

/// A well-formed subsampled YUV frame built with `Plane::new` and the given padding; samples are
/// given per plane in row-major order of the plane's own size.
pub fn yuv_frame<T: Pixel>(w: usize, h: usize, ss: (u8, u8), pads: [(usize, usize); 3], planes: &[Vec<u16>; 3], pad_fill: u16) -> Frame<T> {
    let cw = w >> ss.0;
    let ch = h >> ss.1;
    let dims = [(w, h, 0usize, 0usize), (cw, ch, ss.0 as usize, ss.1 as usize), (cw, ch, ss.0 as usize, ss.1 as usize)];
    let mk = |i: usize| {
        let (pw, ph, xd, yd) = dims[i];
        let mut p = Plane::<T>::new(pw, ph, xd, yd, pads[i].0, pads[i].1);
        for v in p.data.iter_mut() {
            *v = T::cast_from(pad_fill);
        }
        let stride = p.cfg.stride;
        let o = p.data_origin_mut();
        for y in 0..ph {
            for x in 0..pw {
                o[y * stride + x] = T::cast_from(planes[i][y * pw + x]);
            }
        }
        p
    };
    Frame { planes: [mk(0), mk(1), mk(2)] }
}

pub fn kind_name(k: Kind) -> &'static str {
    match k {
        Kind::Yuv8 => "Yuv8",
        Kind::Yuv16 => "Yuv16",
        Kind::Rgb => "Rgb",
        Kind::Lin => "LinearRgb",
        Kind::Xyb => "Xyb",
        Kind::Hsl => "Hsl",
    }
}
pub fn kind_from_name(s: &str) -> Option<Kind> {
    [Kind::Yuv8, Kind::Yuv16, Kind::Rgb, Kind::Lin, Kind::Xyb, Kind::Hsl].into_iter().find(|k| kind_name(*k) == s)
}

pub fn float_case_json(k: Kind, data: &[[f32; 3]], w: usize, h: usize, cfg: &YuvConfig) -> Value {
    json!({"kind": kind_name(k), "w": w, "h": h, "cfg": cfg_json(cfg), "pixels": data.iter().map(|p| px2j(*p)).collect::<Vec<_>>()})
}
pub fn float_case_from_json(v: &Value) -> Option<(Kind, Vec<[f32; 3]>, usize, usize, YuvConfig)> {
    Some((
        kind_from_name(v.get("kind")?.as_str()?)?,
        v.get("pixels")?.as_array()?.iter().filter_map(j2px).collect(),
        v.get("w")?.as_u64()? as usize,
        v.get("h")?.as_u64()? as usize,
        cfg_from_json(v.get("cfg")?)?,
    ))
}
pub fn _unused() {
    let _ = (tc_name(TC::Linear), cp_name(CP::BT709), tc_from_name("x"), cp_from_name("x"));
}
