//! Reference model. Everything here is f64, closed-form and written from the property
//! statements / ITU-T H.273, BT.2100, IEC 61966-2-1, libjxl. It shares no code, table or literal
//! with the library under test.

#![allow(clippy::excessive_precision)]

use yuvxyb::{ColorPrimaries as CP, MatrixCoefficients as MC, TransferCharacteristic as TC};

// ---------------------------------------------------------------- enums / support sets

pub const ALL_MC: [MC; 15] = [
    MC::Identity,
    MC::BT709,
    MC::Unspecified,
    MC::Reserved,
    MC::BT470M,
    MC::BT470BG,
    MC::ST170M,
    MC::ST240M,
    MC::YCgCo,
    MC::BT2020NonConstantLuminance,
    MC::BT2020ConstantLuminance,
    MC::ST2085,
    MC::ChromaticityDerivedNonConstantLuminance,
    MC::ChromaticityDerivedConstantLuminance,
    MC::ICtCp,
];
pub const ALL_CP: [CP; 14] = [
    CP::Reserved0,
    CP::BT709,
    CP::Unspecified,
    CP::Reserved,
    CP::BT470M,
    CP::BT470BG,
    CP::ST170M,
    CP::ST240M,
    CP::Film,
    CP::BT2020,
    CP::ST428,
    CP::P3DCI,
    CP::P3Display,
    CP::Tech3213,
];
pub const ALL_TC: [TC; 19] = [
    TC::Reserved0,
    TC::BT1886,
    TC::Unspecified,
    TC::Reserved,
    TC::BT470M,
    TC::BT470BG,
    TC::ST170M,
    TC::ST240M,
    TC::Linear,
    TC::Logarithmic100,
    TC::Logarithmic316,
    TC::XVYCC,
    TC::BT1361E,
    TC::SRGB,
    TC::BT2020Ten,
    TC::BT2020Twelve,
    TC::PerceptualQuantizer,
    TC::ST428,
    TC::HybridLogGamma,
];

/// the 7 standard non-constant-luminance matrices of C01/C02/C08/C14
pub const STD_MC: [MC; 7] = [
    MC::BT709,
    MC::BT470M,
    MC::BT470BG,
    MC::ST170M,
    MC::ST240M,
    MC::BT2020NonConstantLuminance,
    MC::YCgCo,
];
/// the 14 supported transfer characteristics of C03/C10/C14
pub const SUP_TC: [TC; 14] = [
    TC::BT1886,
    TC::ST170M,
    TC::ST240M,
    TC::BT2020Ten,
    TC::BT2020Twelve,
    TC::BT470M,
    TC::BT470BG,
    TC::SRGB,
    TC::XVYCC,
    TC::Logarithmic100,
    TC::Logarithmic316,
    TC::PerceptualQuantizer,
    TC::HybridLogGamma,
    TC::Linear,
];
/// the 11 supported primaries of C06/C14
pub const SUP_CP: [CP; 11] = [
    CP::BT709,
    CP::BT470M,
    CP::BT470BG,
    CP::ST170M,
    CP::ST240M,
    CP::Film,
    CP::BT2020,
    CP::ST428,
    CP::P3DCI,
    CP::P3Display,
    CP::Tech3213,
];

pub fn mc_name(m: MC) -> &'static str {
    match m {
        MC::Identity => "Identity",
        MC::BT709 => "BT709",
        MC::Unspecified => "Unspecified",
        MC::Reserved => "Reserved",
        MC::BT470M => "BT470M",
        MC::BT470BG => "BT470BG",
        MC::ST170M => "ST170M",
        MC::ST240M => "ST240M",
        MC::YCgCo => "YCgCo",
        MC::BT2020NonConstantLuminance => "BT2020NCL",
        MC::BT2020ConstantLuminance => "BT2020CL",
        MC::ST2085 => "ST2085",
        MC::ChromaticityDerivedNonConstantLuminance => "ChromaNCL",
        MC::ChromaticityDerivedConstantLuminance => "ChromaCL",
        MC::ICtCp => "ICtCp",
    }
}
pub fn cp_name(p: CP) -> &'static str {
    match p {
        CP::Reserved0 => "Reserved0",
        CP::BT709 => "BT709",
        CP::Unspecified => "Unspecified",
        CP::Reserved => "Reserved",
        CP::BT470M => "BT470M",
        CP::BT470BG => "BT470BG",
        CP::ST170M => "ST170M",
        CP::ST240M => "ST240M",
        CP::Film => "Film",
        CP::BT2020 => "BT2020",
        CP::ST428 => "ST428",
        CP::P3DCI => "P3DCI",
        CP::P3Display => "P3Display",
        CP::Tech3213 => "Tech3213",
    }
}
pub fn tc_name(t: TC) -> &'static str {
    match t {
        TC::Reserved0 => "Reserved0",
        TC::BT1886 => "BT1886",
        TC::Unspecified => "Unspecified",
        TC::Reserved => "Reserved",
        TC::BT470M => "BT470M",
        TC::BT470BG => "BT470BG",
        TC::ST170M => "ST170M",
        TC::ST240M => "ST240M",
        TC::Linear => "Linear",
        TC::Logarithmic100 => "Log100",
        TC::Logarithmic316 => "Log316",
        TC::XVYCC => "XVYCC",
        TC::BT1361E => "BT1361E",
        TC::SRGB => "SRGB",
        TC::BT2020Ten => "BT2020Ten",
        TC::BT2020Twelve => "BT2020Twelve",
        TC::PerceptualQuantizer => "PQ",
        TC::ST428 => "ST428",
        TC::HybridLogGamma => "HLG",
    }
}
pub fn mc_from_name(s: &str) -> Option<MC> {
    ALL_MC.iter().copied().find(|m| mc_name(*m) == s)
}
pub fn cp_from_name(s: &str) -> Option<CP> {
    ALL_CP.iter().copied().find(|m| cp_name(*m) == s)
}
pub fn tc_from_name(s: &str) -> Option<TC> {
    ALL_TC.iter().copied().find(|m| tc_name(*m) == s)
}

// ---------------------------------------------------------------- range / quantisation (H.273 8.3)

pub fn norm_luma(code: u32, n: u32, full: bool) -> f64 {
    let k = (1u64 << (n - 8)) as f64;
    let v = if full {
        code as f64 / ((1u64 << n) - 1) as f64
    } else {
        (code as f64 - 16.0 * k) / (219.0 * k)
    };
    v.clamp(0.0, 1.0)
}
pub fn norm_chroma(code: u32, n: u32, full: bool) -> f64 {
    let k = (1u64 << (n - 8)) as f64;
    let v = if full {
        (code as f64 - (1u64 << (n - 1)) as f64) / ((1u64 << n) - 1) as f64
    } else {
        (code as f64 - 128.0 * k) / (224.0 * k)
    };
    v.clamp(-0.5, 0.5)
}
/// real-valued ideal code (before rounding), clamped to [0, 2^n-1]
pub fn ideal_luma_code(y: f64, n: u32, full: bool) -> f64 {
    let k = (1u64 << (n - 8)) as f64;
    let max = ((1u64 << n) - 1) as f64;
    let v = if full { max * y } else { 219.0 * k * y + 16.0 * k };
    v.clamp(0.0, max)
}
pub fn ideal_chroma_code(c: f64, n: u32, full: bool) -> f64 {
    let k = (1u64 << (n - 8)) as f64;
    let max = ((1u64 << n) - 1) as f64;
    let v = if full {
        max * c + (1u64 << (n - 1)) as f64
    } else {
        224.0 * k * c + 128.0 * k
    };
    v.clamp(0.0, max)
}

// ---------------------------------------------------------------- matrices (H.273 table 4)

/// Kr, Kb of the standard matrices (None for YCgCo, which has its own equations)
pub fn kr_kb(m: MC) -> Option<(f64, f64)> {
    Some(match m {
        MC::BT709 => (0.2126, 0.0722),
        MC::BT470M => (0.30, 0.11),
        MC::BT470BG | MC::ST170M => (0.299, 0.114),
        MC::ST240M => (0.212, 0.087),
        MC::BT2020NonConstantLuminance => (0.2627, 0.0593),
        _ => return None,
    })
}

/// (y, cb, cr) real values -> (R, G, B)
pub fn decode_ypbpr(m: MC, y: f64, cb: f64, cr: f64) -> [f64; 3] {
    if m == MC::YCgCo {
        // H.273 eq. for MatrixCoefficients = 8: Cb carries Cg, Cr carries Co
        let cg = cb;
        let co = cr;
        let g = y + cg;
        let t = y - cg;
        return [t + co, g, t - co];
    }
    let (kr, kb) = kr_kb(m).expect("standard matrix");
    let kg = 1.0 - kr - kb;
    let r = y + 2.0 * (1.0 - kr) * cr;
    let b = y + 2.0 * (1.0 - kb) * cb;
    let g = (y - kr * r - kb * b) / kg;
    [r, g, b]
}

/// (R, G, B) -> (Y', Cb, Cr) real values
pub fn encode_ypbpr(m: MC, rgb: [f64; 3]) -> [f64; 3] {
    let [r, g, b] = rgb;
    if m == MC::YCgCo {
        let y = 0.25 * r + 0.5 * g + 0.25 * b;
        let cg = -0.25 * r + 0.5 * g - 0.25 * b;
        let co = 0.5 * r - 0.5 * b;
        return [y, cg, co];
    }
    let (kr, kb) = kr_kb(m).expect("standard matrix");
    let kg = 1.0 - kr - kb;
    let y = kr * r + kg * g + kb * b;
    [y, (b - y) / (2.0 * (1.0 - kb)), (r - y) / (2.0 * (1.0 - kr))]
}

// ---------------------------------------------------------------- transfer characteristics

pub const PQ_M1: f64 = 2610.0 / 16384.0;
pub const PQ_M2: f64 = 2523.0 / 4096.0 * 128.0;
pub const PQ_C1: f64 = 3424.0 / 4096.0;
pub const PQ_C2: f64 = 2413.0 / 4096.0 * 32.0;
pub const PQ_C3: f64 = 2392.0 / 4096.0 * 32.0;
// H.273 "exact" BT.709/BT.2020 OETF constants
pub const G709_ALPHA: f64 = 1.09929682680944;
pub const G709_BETA: f64 = 0.018053968510807;
pub const HLG_A: f64 = 0.17883277;

fn g709(x: f64) -> f64 {
    if x < G709_BETA {
        4.5 * x
    } else {
        G709_ALPHA * x.powf(0.45) - (G709_ALPHA - 1.0)
    }
}
fn g709_inv(v: f64) -> f64 {
    if v < 4.5 * G709_BETA {
        v / 4.5
    } else {
        ((v + (G709_ALPHA - 1.0)) / G709_ALPHA).powf(1.0 / 0.45)
    }
}
/// scale s of the BT.2100 reference OOTF chosen so that OOTF(1) = 1 (i.e. G709(s)^2.4 = 100)
fn pq_ootf_scale() -> f64 {
    g709_inv(100f64.powf(1.0 / 2.4))
}
fn pq_ootf(e: f64) -> f64 {
    g709(pq_ootf_scale() * e).powf(2.4) / 100.0
}
fn pq_ootf_inv(y: f64) -> f64 {
    g709_inv((100.0 * y).powf(1.0 / 2.4)) / pq_ootf_scale()
}
fn pq_inv_eotf(y: f64) -> f64 {
    let p = y.max(0.0).powf(PQ_M1);
    ((PQ_C1 + PQ_C2 * p) / (1.0 + PQ_C3 * p)).powf(PQ_M2)
}
fn pq_eotf(e: f64) -> f64 {
    let p = e.max(0.0).powf(1.0 / PQ_M2);
    ((p - PQ_C1).max(0.0) / (PQ_C2 - PQ_C3 * p)).powf(1.0 / PQ_M1)
}

/// gamma-encoded value in [0,1] -> linear light, by the curve's defining formula
pub fn to_linear(t: TC, v: f64) -> f64 {
    match t {
        TC::BT1886 | TC::ST170M | TC::ST240M | TC::BT2020Ten | TC::BT2020Twelve | TC::XVYCC => v.powf(2.4),
        TC::BT470M => v.powf(2.2),
        TC::BT470BG => v.powf(2.8),
        TC::SRGB => {
            if v <= 0.04045 {
                v / 12.92
            } else {
                ((v + 0.055) / 1.055).powf(2.4)
            }
        }
        TC::Logarithmic100 => 10f64.powf(2.0 * (v - 1.0)),
        TC::Logarithmic316 => 10f64.powf(2.5 * (v - 1.0)),
        TC::PerceptualQuantizer => {
            if v <= 0.0 {
                0.0
            } else {
                pq_ootf_inv(pq_eotf(v))
            }
        }
        TC::HybridLogGamma => {
            let a = HLG_A;
            let b = 1.0 - 4.0 * a;
            let c = 0.5 - a * (4.0 * a).ln();
            if v <= 0.5 {
                v * v / 3.0
            } else {
                (((v - c) / a).exp() + b) / 12.0
            }
        }
        TC::Linear => v,
        _ => f64::NAN,
    }
}

/// linear light in [0,1] -> gamma-encoded value, by the curve's defining formula
pub fn to_gamma(t: TC, l: f64) -> f64 {
    match t {
        TC::BT1886 | TC::ST170M | TC::ST240M | TC::BT2020Ten | TC::BT2020Twelve | TC::XVYCC => l.powf(1.0 / 2.4),
        TC::BT470M => l.powf(1.0 / 2.2),
        TC::BT470BG => l.powf(1.0 / 2.8),
        TC::SRGB => {
            if l <= 0.0031308 {
                12.92 * l
            } else {
                1.055 * l.powf(1.0 / 2.4) - 0.055
            }
        }
        TC::Logarithmic100 => {
            if l < 0.01 {
                0.0
            } else {
                1.0 + l.log10() / 2.0
            }
        }
        TC::Logarithmic316 => {
            if l < 10f64.sqrt() / 1000.0 {
                0.0
            } else {
                1.0 + l.log10() / 2.5
            }
        }
        TC::PerceptualQuantizer => {
            if l <= 0.0 {
                0.0
            } else {
                pq_inv_eotf(pq_ootf(l))
            }
        }
        TC::HybridLogGamma => {
            let a = HLG_A;
            let b = 1.0 - 4.0 * a;
            let c = 0.5 - a * (4.0 * a).ln();
            if l <= 1.0 / 12.0 {
                (3.0 * l).sqrt()
            } else {
                a * (12.0 * l - b).ln() + c
            }
        }
        TC::Linear => l,
        _ => f64::NAN,
    }
}

/// curves that are aliases of BT.1886 (must be bit-identical to it)
pub fn is_1886_alias(t: TC) -> bool {
    matches!(t, TC::ST170M | TC::ST240M | TC::BT2020Ten | TC::BT2020Twelve)
}

// ---------------------------------------------------------------- XYB (libjxl opsin)

pub const OPSIN: [[f64; 3]; 3] = [
    [0.30, 0.622, 0.078],
    [0.23, 0.692, 0.078],
    [0.24342268924547819, 0.20476744424496821, 0.55180986650955360],
];
pub const OPSIN_BIAS: f64 = 0.0037930732552754493;

pub fn opsin_mix(rgb: [f64; 3]) -> [f64; 3] {
    let mut m = [0.0; 3];
    for i in 0..3 {
        m[i] = OPSIN[i][0] * rgb[0] + OPSIN[i][1] * rgb[1] + OPSIN[i][2] * rgb[2] + OPSIN_BIAS;
    }
    m
}
pub fn lrgb_to_xyb(rgb: [f64; 3]) -> [f64; 3] {
    let m = opsin_mix(rgb);
    let cb = OPSIN_BIAS.cbrt();
    let l = m[0].max(0.0).cbrt() - cb;
    let mm = m[1].max(0.0).cbrt() - cb;
    let s = m[2].max(0.0).cbrt() - cb;
    [(l - mm) / 2.0, (l + mm) / 2.0, s]
}
/// exact inverse of the statement's forward definition (Gauss-Jordan inverse of the opsin matrix)
pub fn xyb_to_lrgb(xyb: [f64; 3]) -> [f64; 3] {
    let cb = OPSIN_BIAS.cbrt();
    let l = xyb[1] + xyb[0] + cb;
    let m = xyb[1] - xyb[0] + cb;
    let s = xyb[2] + cb;
    let mix = [l * l * l - OPSIN_BIAS, m * m * m - OPSIN_BIAS, s * s * s - OPSIN_BIAS];
    let inv = mat_inv(OPSIN);
    mat_vec(inv, mix)
}

// ---------------------------------------------------------------- 3x3 algebra in f64

pub type M3 = [[f64; 3]; 3];
pub fn mat_mul(a: M3, b: M3) -> M3 {
    let mut r = [[0.0; 3]; 3];
    for i in 0..3 {
        for j in 0..3 {
            for k in 0..3 {
                r[i][j] += a[i][k] * b[k][j];
            }
        }
    }
    r
}
pub fn mat_vec(a: M3, v: [f64; 3]) -> [f64; 3] {
    let mut r = [0.0; 3];
    for i in 0..3 {
        for k in 0..3 {
            r[i] += a[i][k] * v[k];
        }
    }
    r
}
pub fn mat_det(a: M3) -> f64 {
    a[0][0] * (a[1][1] * a[2][2] - a[1][2] * a[2][1]) - a[0][1] * (a[1][0] * a[2][2] - a[1][2] * a[2][0])
        + a[0][2] * (a[1][0] * a[2][1] - a[1][1] * a[2][0])
}
/// Gauss-Jordan with partial pivoting
pub fn mat_inv(a: M3) -> M3 {
    let mut m = [[0.0f64; 6]; 3];
    for i in 0..3 {
        for j in 0..3 {
            m[i][j] = a[i][j];
        }
        m[i][3 + i] = 1.0;
    }
    for c in 0..3 {
        let mut p = c;
        for r in c + 1..3 {
            if m[r][c].abs() > m[p][c].abs() {
                p = r;
            }
        }
        m.swap(c, p);
        let d = m[c][c];
        for j in 0..6 {
            m[c][j] /= d;
        }
        for r in 0..3 {
            if r != c {
                let f = m[r][c];
                for j in 0..6 {
                    m[r][j] -= f * m[c][j];
                }
            }
        }
    }
    let mut out = [[0.0; 3]; 3];
    for i in 0..3 {
        for j in 0..3 {
            out[i][j] = m[i][3 + j];
        }
    }
    out
}

// ---------------------------------------------------------------- primaries (H.273 table 2)

pub const WHITE_C: [f64; 2] = [0.310, 0.316];
pub const WHITE_D65: [f64; 2] = [0.3127, 0.3290];
pub const WHITE_DCI: [f64; 2] = [0.314, 0.351];
pub const WHITE_E: [f64; 2] = [1.0 / 3.0, 1.0 / 3.0];

/// chromaticities (r,g,b) and white point; None for the XYZ encoding ST 428
pub fn primaries_xy(p: CP) -> Option<([[f64; 2]; 3], [f64; 2])> {
    Some(match p {
        CP::BT709 => ([[0.640, 0.330], [0.300, 0.600], [0.150, 0.060]], WHITE_D65),
        CP::BT470M => ([[0.67, 0.33], [0.21, 0.71], [0.14, 0.08]], WHITE_C),
        CP::BT470BG => ([[0.64, 0.33], [0.29, 0.60], [0.15, 0.06]], WHITE_D65),
        CP::ST170M | CP::ST240M => ([[0.630, 0.340], [0.310, 0.595], [0.155, 0.070]], WHITE_D65),
        CP::Film => ([[0.681, 0.319], [0.243, 0.692], [0.145, 0.049]], WHITE_C),
        CP::BT2020 => ([[0.708, 0.292], [0.170, 0.797], [0.131, 0.046]], WHITE_D65),
        CP::P3DCI => ([[0.680, 0.320], [0.265, 0.690], [0.150, 0.060]], WHITE_DCI),
        CP::P3Display => ([[0.680, 0.320], [0.265, 0.690], [0.150, 0.060]], WHITE_D65),
        CP::Tech3213 => ([[0.630, 0.340], [0.295, 0.605], [0.155, 0.077]], WHITE_D65),
        _ => return None,
    })
}
fn xy_to_xyz(xy: [f64; 2]) -> [f64; 3] {
    [xy[0] / xy[1], 1.0, (1.0 - xy[0] - xy[1]) / xy[1]]
}
/// RGB -> XYZ matrix and white XYZ of a primaries set
pub fn rgb_to_xyz(p: CP) -> (M3, [f64; 3]) {
    if p == CP::ST428 {
        return ([[1.0, 0.0, 0.0], [0.0, 1.0, 0.0], [0.0, 0.0, 1.0]], xy_to_xyz(WHITE_E));
    }
    let (prim, w) = primaries_xy(p).expect("supported primaries");
    let r = xy_to_xyz(prim[0]);
    let g = xy_to_xyz(prim[1]);
    let b = xy_to_xyz(prim[2]);
    let cols = [[r[0], g[0], b[0]], [r[1], g[1], b[1]], [r[2], g[2], b[2]]];
    let wz = xy_to_xyz(w);
    let s = mat_vec(mat_inv(cols), wz);
    let mut m = cols;
    for i in 0..3 {
        for j in 0..3 {
            m[i][j] *= s[j];
        }
    }
    (m, wz)
}
pub const BRADFORD: M3 = [[0.8951, 0.2664, -0.1614], [-0.7502, 1.7135, 0.0367], [0.0389, -0.0685, 1.0296]];

/// linear RGB in `from` primaries -> linear RGB in `to` primaries
pub fn primaries_matrix(from: CP, to: CP) -> M3 {
    let (m_in, w_in) = rgb_to_xyz(from);
    let (m_out, w_out) = rgb_to_xyz(to);
    let ci = mat_vec(BRADFORD, w_in);
    let co = mat_vec(BRADFORD, w_out);
    let d = [[co[0] / ci[0], 0.0, 0.0], [0.0, co[1] / ci[1], 0.0], [0.0, 0.0, co[2] / ci[2]]];
    let adapt = mat_mul(mat_inv(BRADFORD), mat_mul(d, BRADFORD));
    mat_mul(mat_inv(m_out), mat_mul(adapt, m_in))
}

// ---------------------------------------------------------------- HSL (hexcone)

/// returns (H in [0,360), S, L, chroma)
pub fn hsl(rgb: [f64; 3]) -> (f64, f64, f64, f64) {
    let [r, g, b] = rgb;
    let mx = r.max(g).max(b);
    let mn = r.min(g).min(b);
    let c = mx - mn;
    let l = (mx + mn) / 2.0;
    let s = if c == 0.0 || l <= 0.0 || l >= 1.0 { 0.0 } else { c / (1.0 - (2.0 * l - 1.0).abs()) };
    let h = if c == 0.0 {
        0.0
    } else if mx == r {
        60.0 * ((g - b) / c).rem_euclid(6.0)
    } else if mx == g {
        60.0 * ((b - r) / c + 2.0)
    } else {
        60.0 * ((r - g) / c + 4.0)
    };
    (h % 360.0, s, l, c)
}
pub fn hsl_to_rgb(h: f64, s: f64, l: f64) -> [f64; 3] {
    let c = (1.0 - (2.0 * l - 1.0).abs()) * s;
    let hp = (h / 60.0).rem_euclid(6.0);
    let x = c * (1.0 - (hp % 2.0 - 1.0).abs());
    let (r, g, b) = match hp as u32 {
        0 => (c, x, 0.0),
        1 => (x, c, 0.0),
        2 => (0.0, c, x),
        3 => (0.0, x, c),
        4 => (x, 0.0, c),
        _ => (c, 0.0, x),
    };
    let m = l - c / 2.0;
    [r + m, g + m, b + m]
}

// ---------------------------------------------------------------- mpv heuristic (C15 statement)

pub fn guess_matrix(w: usize, h: usize) -> MC {
    if w >= 1280 || h > 576 {
        MC::BT709
    } else if h == 576 {
        MC::BT470BG
    } else {
        MC::ST170M
    }
}
pub fn guess_primaries(m: MC, w: usize, h: usize) -> CP {
    if m == MC::BT2020NonConstantLuminance || m == MC::BT2020ConstantLuminance {
        CP::BT2020
    } else if m == MC::BT709 || w >= 1280 || h > 576 {
        CP::BT709
    } else if h == 576 {
        CP::BT470BG
    } else if h == 480 || h == 488 {
        CP::ST170M
    } else {
        CP::BT709
    }
}

// ---------------------------------------------------------------- ulp helpers

/// distance in f32 ulps between `got` and the exact real value `exact` (ulp taken at `exact`)
pub fn ulp_err(got: f32, exact: f64) -> f64 {
    if !got.is_finite() {
        return f64::INFINITY;
    }
    let e32 = exact as f32;
    let a = e32.abs().max(f32::MIN_POSITIVE);
    // ulp of the binade containing |exact|
    let exp = a.to_bits() >> 23;
    let ulp = f64::from(f32::from_bits(exp << 23)) * (2f64).powi(-23);
    (f64::from(got) - exact).abs() / ulp
}
