//! Generated frame geometries: everything a caller can build through the public frame types
//! (`Plane::new`, `Plane::from_slice`, the public `cfg.xdec/ydec` fields), well-formed or not.

use crate::api::{cfg_from_json, cfg_json};
use crate::engine::Expand;
use proptest::prelude::*;
use serde::{Deserialize, Serialize};
use serde_json::{json, Value};
use yuvxyb::{Frame, Pixel, Plane, YuvConfig};

#[derive(Debug, Clone, Serialize, Deserialize, PartialEq)]
pub struct PlaneSpec {
    pub w: usize,
    pub h: usize,
    pub xdec: usize,
    pub ydec: usize,
    pub xpad: usize,
    pub ypad: usize,
    /// build with Plane::from_slice (stride == width, no padding) instead of Plane::new
    pub from_slice: bool,
}

#[derive(Debug, Clone)]
pub struct FrameSpec {
    pub planes: [PlaneSpec; 3],
    pub u8_storage: bool,
    pub cfg: YuvConfig,
    pub fill_seed: u64,
    /// one out-of-range sample: (plane, prefer a visible position, index modulo the number of visible samples
    /// resp. the buffer length, value)
    pub bad: Option<(usize, bool, usize, u16)>,
}

impl FrameSpec {
    pub fn to_json(&self) -> Value {
        json!({"planes": self.planes, "storage": if self.u8_storage {"u8"} else {"u16"}, "cfg": cfg_json(&self.cfg),
               "fill_seed": self.fill_seed.to_string(), "bad": self.bad})
    }
    pub fn from_json(v: &Value) -> Option<FrameSpec> {
        let planes: Vec<PlaneSpec> = serde_json::from_value(v.get("planes")?.clone()).ok()?;
        let bad: Option<(usize, bool, usize, u16)> = serde_json::from_value(v.get("bad")?.clone()).ok()?;
        Some(FrameSpec {
            planes: [planes.first()?.clone(), planes.get(1)?.clone(), planes.get(2)?.clone()],
            u8_storage: v.get("storage")?.as_str()? == "u8",
            cfg: cfg_from_json(v.get("cfg")?)?,
            fill_seed: v.get("fill_seed")?.as_str()?.parse().ok()?,
            bad,
        })
    }

    pub fn max_code(&self) -> u16 {
        if self.cfg.bit_depth >= 16 {
            u16::MAX
        } else {
            ((1u32 << self.cfg.bit_depth) - 1) as u16
        }
    }

    /// Build the frame. Returns the frame and, if a bad sample was planted, whether it landed in
    /// the visible area of its plane.
    pub fn build<T: Pixel>(&self) -> (Frame<T>, Option<bool>) {
        let max = if self.u8_storage { 255 } else { self.max_code() };
        let mut e = Expand(self.fill_seed);
        let mut bad_visible = None;
        let mut mk = |i: usize| -> Plane<T> {
            let s = &self.planes[i];
            let mut p: Plane<T> = if s.from_slice && s.w > 0 {
                let data: Vec<T> = (0..s.w * s.h).map(|_| T::cast_from(e.below(max as u64 + 1) as u16)).collect();
                let mut p = Plane::from_slice(&data, s.w);
                p.cfg.xdec = s.xdec;
                p.cfg.ydec = s.ydec;
                p
            } else {
                let mut p = Plane::<T>::new(s.w, s.h, s.xdec, s.ydec, s.xpad, s.ypad);
                for v in p.data.iter_mut() {
                    *v = T::cast_from(e.below(max as u64 + 1) as u16);
                }
                if self.fill_seed % 3 == 0 && !self.u8_storage {
                    // padding holds arbitrary 16-bit junk (what a decoder's edge extension or an uninitialised
                    // allocation leaves there): only *visible* samples are subject to the depth
                    let (st, xo, yo, w, h) = (p.cfg.stride.max(1), p.cfg.xorigin, p.cfg.yorigin, p.cfg.width, p.cfg.height);
                    for (k, v) in p.data.iter_mut().enumerate() {
                        let (row, col) = (k / st, k % st);
                        if !(row >= yo && row < yo + h && col >= xo && col < xo + w) {
                            *v = T::cast_from(e.below(65536) as u16);
                        }
                    }
                }
                p
            };
            if let Some((bp, prefer_visible, idx, val)) = self.bad {
                if bp == i && !p.data.is_empty() {
                    let len = p.data.len();
                    let vis_n = p.cfg.width * p.cfg.height;
                    let at = if prefer_visible && vis_n > 0 {
                        let k = idx % vis_n;
                        ((p.cfg.yorigin + k / p.cfg.width) * p.cfg.stride + p.cfg.xorigin + k % p.cfg.width).min(len - 1)
                    } else {
                        idx % len
                    };
                    p.data[at] = T::cast_from(val);
                    let stride = p.cfg.stride.max(1);
                    let (row, col) = (at / stride, at % stride);
                    let vis = row >= p.cfg.yorigin && row < p.cfg.yorigin + p.cfg.height && col >= p.cfg.xorigin && col < p.cfg.xorigin + p.cfg.width;
                    bad_visible = Some(vis);
                }
            }
            p
        };
        let planes = [mk(0), mk(1), mk(2)];
        (Frame { planes }, bad_visible)
    }

    // ---- the four conjuncts of C12, evaluated on the specification (not on library code)
    pub fn decimation_ok(&self) -> bool {
        let c = &self.cfg;
        (1..3).all(|i| self.planes[i].xdec == c.subsampling_x as usize && self.planes[i].ydec == c.subsampling_y as usize)
    }
    pub fn luma_w_ok(&self) -> bool {
        self.planes[0].w % (1usize << self.cfg.subsampling_x) == 0
    }
    pub fn luma_h_ok(&self) -> bool {
        self.planes[0].h % (1usize << self.cfg.subsampling_y) == 0
    }
    pub fn chroma_w_ok(&self) -> bool {
        (1..3).all(|i| self.planes[i].w == self.planes[0].w >> self.cfg.subsampling_x)
    }
    pub fn chroma_h_ok(&self) -> bool {
        (1..3).all(|i| self.planes[i].h == self.planes[0].h >> self.cfg.subsampling_y)
    }
    /// a chroma plane cannot cover the luma plane at the declared subsampling (C07 rejection clause)
    pub fn chroma_too_small(&self) -> bool {
        let need_w = (self.planes[0].w + (1usize << self.cfg.subsampling_x) - 1) >> self.cfg.subsampling_x;
        let need_h = (self.planes[0].h + (1usize << self.cfg.subsampling_y) - 1) >> self.cfg.subsampling_y;
        (1..3).any(|i| self.planes[i].w < need_w || self.planes[i].h < need_h)
    }
}

const BIG: [usize; 7] = [31, 32, 33, 63, 64, 65, 130];

fn luma_dim() -> impl Strategy<Value = usize> {
    prop_oneof![8 => 1usize..=12, 1 => (0usize..BIG.len()).prop_map(|i| BIG[i])]
}

/// chroma dimension relative to the required one: exact, +-1, small absolute, double
fn chroma_dim(required: usize) -> impl Strategy<Value = usize> {
    prop_oneof![
        10 => Just(required),
        2 => Just(required.saturating_sub(1)),
        2 => Just(required + 1),
        2 => 0usize..=13,
        1 => Just(required * 2),
    ]
}

fn pad() -> impl Strategy<Value = usize> {
    prop_oneof![3 => Just(0usize), 3 => 0usize..=17]
}

pub fn frame_spec(cfg_strategy: BoxedStrategy<YuvConfig>, well_formed_bias: bool) -> BoxedStrategy<FrameSpec> {
    (cfg_strategy, any::<bool>(), luma_dim(), luma_dim(), any::<u64>())
        .prop_flat_map(move |(mut cfg, u8s, mut w, mut h, seed)| {
            if u8s {
                cfg.bit_depth = 8;
            }
            if well_formed_bias {
                // most frames divisible, so that the interesting checks behind divisibility are reached
                let mx = 1usize << cfg.subsampling_x;
                let my = 1usize << cfg.subsampling_y;
                if seed % 8 != 0 {
                    w = ((w + mx - 1) / mx * mx).max(mx);
                    h = ((h + my - 1) / my * my).max(my);
                }
            }
            let (ssx, ssy) = (cfg.subsampling_x as usize, cfg.subsampling_y as usize);
            let rw = w >> ssx;
            let rh = h >> ssy;
            let dec = move |d: usize| prop_oneof![12 => Just(d), 1 => 0usize..=2];
            let plane = move |pw: BoxedStrategy<usize>, ph: BoxedStrategy<usize>, xd: BoxedStrategy<usize>, yd: BoxedStrategy<usize>| {
                (pw, ph, xd, yd, pad(), pad(), prop::bool::weighted(0.3)).prop_map(|(w, h, xdec, ydec, xpad, ypad, from_slice)| PlaneSpec { w, h, xdec, ydec, xpad, ypad, from_slice })
            };
            // U and V usually share a geometry, sometimes differ
            let uv = (
                plane(chroma_dim(rw).boxed(), chroma_dim(rh).boxed(), dec(ssx).boxed(), dec(ssy).boxed()),
                plane(chroma_dim(rw).boxed(), chroma_dim(rh).boxed(), dec(ssx).boxed(), dec(ssy).boxed()),
                prop::bool::weighted(0.7),
            )
                .prop_map(|(u, v, same)| if same { (u.clone(), u) } else { (u, v) });
            let luma = plane(Just(w).boxed(), Just(h).boxed(), Just(0usize).boxed(), Just(0usize).boxed());
            let max = if cfg.bit_depth >= 16 { u16::MAX } else { ((1u32 << cfg.bit_depth) - 1) as u16 };
            let bad = if !u8s && cfg.bit_depth < 16 {
                prop_oneof![
                    3 => Just(None),
                    2 => (0usize..3, any::<bool>(), any::<u32>(), (max as u32 + 1)..=65535u32).prop_map(|(p, vis, i, v)| Some((p, vis, i as usize, v as u16))),
                    1 => (0usize..3, any::<bool>(), any::<u32>()).prop_map(move |(p, vis, i)| Some((p, vis, i as usize, max + 1))),
                ]
                .boxed()
            } else {
                Just(None).boxed()
            };
            (luma, uv, bad).prop_map(move |(y, (u, v), bad)| FrameSpec { planes: [y, u, v], u8_storage: u8s, cfg, fill_seed: seed, bad })
        })
        .boxed()
}
