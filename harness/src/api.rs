//! Thin helpers around the public API of the library under test.

use serde_json::{json, Value};
use yuvxyb::{
    ColorPrimaries as CP, Frame, MatrixCoefficients as MC, Pixel, Plane, TransferCharacteristic as TC, Yuv, YuvConfig,
};

use crate::oracle::{cp_from_name, cp_name, mc_from_name, mc_name, tc_from_name, tc_name};

pub fn cfg(mc: MC, tc: TC, cp: CP, depth: u8, full: bool, ss: (u8, u8)) -> YuvConfig {
    YuvConfig {
        bit_depth: depth,
        subsampling_x: ss.0,
        subsampling_y: ss.1,
        full_range: full,
        matrix_coefficients: mc,
        transfer_characteristics: tc,
        color_primaries: cp,
    }
}

pub fn cfg_json(c: &YuvConfig) -> Value {
    json!({
        "depth": c.bit_depth, "ss_x": c.subsampling_x, "ss_y": c.subsampling_y, "full": c.full_range,
        "matrix": mc_name(c.matrix_coefficients), "transfer": tc_name(c.transfer_characteristics),
        "primaries": cp_name(c.color_primaries)
    })
}
pub fn cfg_from_json(v: &Value) -> Option<YuvConfig> {
    Some(YuvConfig {
        bit_depth: v.get("depth")?.as_u64()? as u8,
        subsampling_x: v.get("ss_x")?.as_u64()? as u8,
        subsampling_y: v.get("ss_y")?.as_u64()? as u8,
        full_range: v.get("full")?.as_bool()?,
        matrix_coefficients: mc_from_name(v.get("matrix")?.as_str()?)?,
        transfer_characteristics: tc_from_name(v.get("transfer")?.as_str()?)?,
        color_primaries: cp_from_name(v.get("primaries")?.as_str()?)?,
    })
}

/// 4:4:4 frame of size (w,h) with `Plane::new` padding (xpad,ypad), filled from code triples in
/// row-major order; padding samples keep v_frame's default fill.
pub fn frame444<T: Pixel>(codes: &[[u16; 3]], w: usize, h: usize, xpad: usize, ypad: usize) -> Frame<T> {
    frame444_pads(codes, w, h, [(xpad, ypad); 3])
}

/// same, with an independent padding (hence stride / origin) per plane
pub fn frame444_pads<T: Pixel>(codes: &[[u16; 3]], w: usize, h: usize, pads: [(usize, usize); 3]) -> Frame<T> {
    assert_eq!(codes.len(), w * h);
    let mut planes = [
        Plane::<T>::new(w, h, 0, 0, pads[0].0, pads[0].1),
        Plane::<T>::new(w, h, 0, 0, pads[1].0, pads[1].1),
        Plane::<T>::new(w, h, 0, 0, pads[2].0, pads[2].1),
    ];
    for (pi, plane) in planes.iter_mut().enumerate() {
        let stride = plane.cfg.stride;
        let origin = plane.data_origin_mut();
        for y in 0..h {
            for x in 0..w {
                origin[y * stride + x] = T::cast_from(codes[y * w + x][pi]);
            }
        }
    }
    Frame { planes }
}

/// read back a 4:4:4 image as code triples
pub fn codes444<T: Pixel>(yuv: &Yuv<T>) -> Vec<[u16; 3]> {
    let w = yuv.width();
    let h = yuv.height();
    let d = yuv.data();
    let mut out = Vec::with_capacity(w * h);
    for y in 0..h {
        for x in 0..w {
            out.push([
                u16::cast_from(d[0].p(x, y)),
                u16::cast_from(d[1].p(x, y)),
                u16::cast_from(d[2].p(x, y)),
            ]);
        }
    }
    out
}

/// all visible samples of a plane in row-major order
pub fn plane_samples<T: Pixel>(p: &Plane<T>) -> Vec<u16> {
    let mut out = Vec::with_capacity(p.cfg.width * p.cfg.height);
    for y in 0..p.cfg.height {
        for x in 0..p.cfg.width {
            out.push(u16::cast_from(p.p(x, y)));
        }
    }
    out
}

pub use yuvxyb::CastFromPrimitive;
