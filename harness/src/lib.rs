//! Library part of the harness: oracles, generators, checkers. Used by the `vcheck` binary, by the
//! cargo-fuzz targets in /verif/fuzz and (through the binary) by the Miri engine.
#![allow(dead_code)]

pub mod api;
pub mod conv;
pub mod engine;
pub mod frames;
pub mod gen;
pub mod oracle;
pub mod props;
