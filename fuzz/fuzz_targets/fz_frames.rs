#![no_main]
//! bytes -> frame geometry + call history (C07), constructor contract (C12), metamorphic relations (C11)
use arbitrary::Unstructured;
use libfuzzer_sys::fuzz_target;
use vcheck::frames::{FrameSpec, PlaneSpec};
use vcheck::gen::SUBSAMPLINGS;
use vcheck::oracle::{STD_MC, SUP_CP, SUP_TC};
use vcheck::props::{c07, c11, c12};
include!("common.rs");

fn plane(u: &mut Unstructured, w: usize, h: usize, xdec: usize, ydec: usize) -> arbitrary::Result<PlaneSpec> {
    Ok(PlaneSpec { w, h, xdec, ydec, xpad: u.int_in_range(0..=17)?, ypad: u.int_in_range(0..=17)?, from_slice: u.ratio(1, 4)? })
}

fn dim(u: &mut Unstructured, required: usize) -> arbitrary::Result<usize> {
    Ok(match u.int_in_range(0..=7)? {
        0 => required.saturating_sub(1),
        1 => required + 1,
        2 => u.int_in_range(0..=13)?,
        3 => required * 2,
        _ => required,
    })
}

fn decode(u: &mut Unstructured) -> arbitrary::Result<(c07::Case, Option<c11::Case>)> {
    let ss = SUBSAMPLINGS[u.int_in_range(0..=5)?];
    let u8s: bool = u.arbitrary()?;
    let depth: u8 = if u8s { 8 } else { u.int_in_range(8..=16)? };
    let cfg = vcheck::api::cfg(STD_MC[u.int_in_range(0..=6)?], SUP_TC[u.int_in_range(0..=13)?], SUP_CP[u.int_in_range(0..=10)?], depth, u.arbitrary()?, ss);
    let big = [31usize, 32, 33, 63, 64, 65];
    let mut w: usize = if u.ratio(1, 10)? { big[u.int_in_range(0..=5)?] } else { u.int_in_range(1..=12)? };
    let mut h: usize = if u.ratio(1, 10)? { big[u.int_in_range(0..=5)?] } else { u.int_in_range(1..=12)? };
    if !u.ratio(1, 8)? {
        let (mx, my) = (1usize << ss.0, 1usize << ss.1);
        w = ((w + mx - 1) / mx * mx).max(mx);
        h = ((h + my - 1) / my * my).max(my);
    }
    let (rw, rh) = (w >> ss.0, h >> ss.1);
    let decx = if u.ratio(1, 12)? { u.int_in_range(0..=2)? } else { ss.0 as usize };
    let decy = if u.ratio(1, 12)? { u.int_in_range(0..=2)? } else { ss.1 as usize };
    let y = plane(u, w, h, 0, 0)?;
    let (cw, ch) = (dim(u, rw)?, dim(u, rh)?);
    let up = plane(u, cw, ch, decx, decy)?;
    let vp = if u.ratio(3, 4)? { up.clone() } else { let (cw2, ch2) = (dim(u, rw)?, dim(u, rh)?); plane(u, cw2, ch2, decx, decy)? };
    let bad = if !u8s && depth < 16 && u.ratio(1, 3)? {
        let max = (1u32 << depth) - 1;
        Some((u.int_in_range(0..=2)?, u.arbitrary()?, u.arbitrary::<u32>()? as usize, u.int_in_range(max + 1..=65535)? as u16))
    } else {
        None
    };
    let spec = FrameSpec { planes: [y, up, vp], u8_storage: u8s, cfg, fill_seed: u.arbitrary()?, bad };
    let geo = c07::GeoCase { spec, writer_ss: SUBSAMPLINGS[u.int_in_range(0..=5)?], writer_u8: u.arbitrary()?, writer_src: u.int_in_range(0..=3)?, pix_seed: u.arbitrary()? };
    // a well-formed image for the metamorphic relations
    let c11c = if u.ratio(1, 3)? {
        let kinds = [vcheck::conv::Kind::Yuv8, vcheck::conv::Kind::Yuv16, vcheck::conv::Kind::Rgb, vcheck::conv::Kind::Lin, vcheck::conv::Kind::Xyb, vcheck::conv::Kind::Hsl];
        let src = kinds[u.int_in_range(0..=5)?];
        let mut c = cfg;
        if src == vcheck::conv::Kind::Yuv8 {
            c.bit_depth = 8;
        }
        let mut pads = [(0usize, 0usize); 3];
        let mut pads2 = [(0usize, 0usize); 3];
        for i in 0..3 {
            pads[i] = (u.int_in_range(0..=32)?, u.int_in_range(0..=8)?);
            pads2[i] = (u.int_in_range(0..=32)?, u.int_in_range(0..=8)?);
        }
        Some(c11::Case { src, bw: u.int_in_range(1..=6)?, bh: u.int_in_range(1..=6)?, cfg: c, seed: u.arbitrary()?, pads, pads2 })
    } else {
        None
    };
    Ok((c07::Case::Geo(geo), c11c))
}

fuzz_target!(|data: &[u8]| {
    quiet_panics();
    let mut u = Unstructured::new(data);
    let Ok((case, c11c)) = decode(&mut u) else { return };
    let mut st = stats();
    if let c07::Case::Geo(g) = &case {
        if let Err(v) = c12::check(&g.spec, &mut st) {
            report(v);
        }
    }
    if let Err(v) = c07::check(&case, &mut st) {
        report(v);
    }
    if let Some(c) = c11c {
        if let Err(v) = c11::check(&c, &mut st) {
            report(v);
        }
    }
});
