#![no_main]
//! bytes -> call history over a pool of image slots (C11 relation R9: every conversion agrees with the
//! same conversion of a replica rebuilt from the observable state on a fresh thread)
use arbitrary::Unstructured;
use libfuzzer_sys::fuzz_target;
use vcheck::gen::SUBSAMPLINGS;
use vcheck::oracle::{SUP_CP, SUP_TC};
use vcheck::props::c11::WORKING_MC;
use vcheck::props::c11_hist::{check, Case, Op};
use yuvxyb::ColorPrimaries as CP;
include!("common.rs");

fn decode(u: &mut Unstructured) -> arbitrary::Result<Case> {
    let ss = SUBSAMPLINGS[u.int_in_range(0..=5)?];
    let m = WORKING_MC[u.int_in_range(0..=11)?];
    let mut p = SUP_CP[u.int_in_range(0..=10)?];
    if !vcheck::oracle::STD_MC.contains(&m) && p == CP::ST428 {
        p = CP::BT709;
    }
    let base = vcheck::api::cfg(m, SUP_TC[u.int_in_range(0..=13)?], p, u.int_in_range(8..=16)?, u.arbitrary()?, ss);
    let n = u.int_in_range(3..=14)?;
    let mut ops = Vec::new();
    for _ in 0..n {
        ops.push(match u.int_in_range(0..=9)? {
            0 | 1 => Op::New { slot: u.int_in_range(0..=2)?, kind: u.int_in_range(0..=3)?, seed: u.int_in_range(0..=15u64)? },
            2 | 3 => Op::Paint { slot: u.int_in_range(0..=2)?, seed: u.int_in_range(0..=15u64)? },
            _ => Op::Convert { src: u.int_in_range(0..=2)?, edge: u.arbitrary()?, cfg: u.int_in_range(0..=3)?, dst: u.int_in_range(0..=2)? },
        });
    }
    Ok(Case { base, bw: u.int_in_range(1..=3)?, bh: u.int_in_range(1..=2)?, ops })
}

fuzz_target!(|data: &[u8]| {
    quiet_panics();
    let mut u = Unstructured::new(data);
    let Ok(case) = decode(&mut u) else { return };
    let mut st = stats();
    if let Err(v) = check(&case, &mut st) {
        report(v);
    }
});
