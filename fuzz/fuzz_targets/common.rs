// shared by the fuzz targets (included with `include!`)
use vcheck::engine::{Stats, Violation};

/// Report a violation found by the oracle inside the target: print the replayable case on one line
/// (the driver turns it into a replay file) and crash so that libFuzzer saves the input.
pub fn report(v: Violation) -> ! {
    let mut case = v.case.clone();
    if let serde_json::Value::Object(m) = &mut case {
        m.insert("signature".into(), serde_json::json!(v.signature));
        m.insert("message".into(), serde_json::json!(v.message));
    }
    println!("FUZZ-VIOLATION {}", case);
    eprintln!("FUZZ-VIOLATION {}", case);
    std::process::abort();
}

pub fn quiet_panics() {
    static ONCE: std::sync::Once = std::sync::Once::new();
    ONCE.call_once(|| {
        std::panic::set_hook(Box::new(|_| {}));
        // like the property checks, the fuzz targets run with a logger enabled (code inside the library's log
        // statements is part of what is being fuzzed)
        vcheck::engine::install_logger();
    });
}

pub fn stats() -> Stats {
    let mut s = Stats::new();
    s.sample_budget = 0;
    s
}
