#![no_main]
//! bytes -> arguments of cbrtf / powf / expf (C18 accuracy contracts and totality)
use libfuzzer_sys::fuzz_target;
use vcheck::props::c18;
include!("common.rs");

fuzz_target!(|data: &[u8]| {
    quiet_panics();
    if data.len() < 9 {
        return;
    }
    let x = f32::from_bits(u32::from_le_bytes([data[1], data[2], data[3], data[4]]));
    let y = f32::from_bits(u32::from_le_bytes([data[5], data[6], data[7], data[8]]));
    let case = match data[0] % 4 {
        0 => c18::Case::Cbrt(vec![x, y]),
        1 => c18::Case::Pow(vec![(x.abs(), y), (y.abs(), c18::LIB_EXPONENTS[(data[0] / 4) as usize % 12])]),
        2 => c18::Case::Exp(vec![x, y]),
        _ => c18::Case::Total(vec![(x, y)]),
    };
    let mut st = stats();
    if let Err(v) = c18::check(&case, &mut st) {
        report(v);
    }
});
