#![no_main]
//! bytes -> float image + history over the conversion graph (C13 totality/valid codes, C07 float clause)
use arbitrary::Unstructured;
use libfuzzer_sys::fuzz_target;
use vcheck::conv::Kind;
use vcheck::gen::SUBSAMPLINGS;
use vcheck::oracle::{STD_MC, SUP_CP, SUP_TC};
use vcheck::props::hist::{Data, FloatCase, SPECIAL_F32};
use vcheck::props::{c07, c13};
include!("common.rs");

fn decode(u: &mut Unstructured) -> arbitrary::Result<FloatCase> {
    let ss = SUBSAMPLINGS[u.int_in_range(0..=5)?];
    let cfg = vcheck::api::cfg(STD_MC[u.int_in_range(0..=6)?], SUP_TC[u.int_in_range(0..=13)?], SUP_CP[u.int_in_range(0..=10)?], u.int_in_range(8..=16)?, u.arbitrary()?, ss);
    let kind = [Kind::Rgb, Kind::Lin, Kind::Xyb, Kind::Hsl][u.int_in_range(0..=3)?];
    let (bw, bh): (usize, usize) = (u.int_in_range(1..=3)?, u.int_in_range(1..=2)?);
    let (w, h) = (bw << ss.0, bh << ss.1);
    let nops = u.int_in_range(1..=4)?;
    let mut ops = Vec::new();
    for _ in 0..nops {
        ops.push(u.arbitrary::<u8>()?);
    }
    // pixel data straight from the fuzzer bytes: special values, raw bit patterns or unit-range values
    let mut px = Vec::with_capacity(w * h);
    for _ in 0..w * h {
        let mut p = [0f32; 3];
        for c in p.iter_mut() {
            *c = match u.int_in_range(0..=3)? {
                0 => f32::from_bits(SPECIAL_F32[u.int_in_range(0..=SPECIAL_F32.len() - 1)?]),
                1 => f32::from_bits(u.arbitrary::<u32>()?),
                2 => u.int_in_range(0..=65535u32)? as f32 / 65535.0,
                _ => (u.int_in_range(0..=65535u32)? as f32 / 65535.0) * 5.0 - 2.0,
            };
        }
        px.push(p);
    }
    Ok(FloatCase { kind, w, h, cfg, data: Data::Explicit(px), ops })
}

fuzz_target!(|data: &[u8]| {
    quiet_panics();
    let mut u = Unstructured::new(data);
    let Ok(case) = decode(&mut u) else { return };
    let mut st = stats();
    if let Err(v) = c13::check(&case, &mut st) {
        report(v);
    }
    if let Err(v) = c07::check(&c07::Case::Float(case), &mut st) {
        report(v);
    }
});
